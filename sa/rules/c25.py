"""C25 - datasets arrive exactly as sent, for every transfer syntax and storage mode."""

from __future__ import annotations

import ast

from ..cfg import CFG, calls_at
from ..loader import AnalysisError, Repo, body_nodoc, dotted, norm, parent, walk_no_nested, enclosing, qualname, strip_cast
from ..report import Report

LEVEL = "other"
EXPLANATION = (
    "Structural necessary conditions of a value-level property (equality of decoded data sets is "
    "pydicom's codec over all VRs and is not decided here). (codec-flags) every call of dsutils.encode "
    "/ dsutils.decode in the package passes (is_implicit_VR, is_little_endian, is_deflated) read from "
    "one and the same transfer-syntax object in the order the callee declares, or the constant "
    "(True, True) used for command sets; the callee signatures are read, not assumed. (deflate) "
    "compression and decompression use the same zlib window argument, the pad byte is added only to a "
    "deflated stream of odd length, and decode forces explicit little endian exactly when deflated. "
    "(chunked-recv) when decode_msg diverts a C-STORE data set to a file, both branches write exactly "
    "the fragment without its control header, the file starts with preamble + 'DICM' + file meta built "
    "from the command set's SOP class/instance and the accepted context's transfer syntax, and every "
    "Event accessor that reads the request's DataSet also consults the file path; the storage SCP "
    "removes the file only after the handler returned. (chunked-send) a data set sent from a file "
    "starts at the offset split_dataset computed, is read with the same size limits as in-memory "
    "fragments and may only travel on a context with exactly the file's transfer syntax "
    "(allow_conversion=False). Not decided: equality of decoded data sets for all VRs and values."
    " Fourth session: (bytes-complete) borrowed from C03's recv-exact; (mode-decided-once) the receive-mode flag is read only where the data set is received; C15's file-offset."
    ' Fifth round: the codec pair is evaluated over the whole flag space with a marker payload (codec-evaluated); the receive-mode flag may also be read by the DIMSE message modules that take the decision.'
)


def resolves_to(repo: Repo, m, name: str, target_mod: str, target: str) -> bool:
    if name in m.imports:
        src, attr = m.imports[name]
        return src.endswith(target_mod) and attr == target
    return m.name.endswith(target_mod) and name == target and name in m.funcs


def run(repo: Repo, rep: Report, tier: str) -> None:
    rep.rule("codec-flags", "encode/decode get (is_implicit_VR, is_little_endian, is_deflated) from one transfer-syntax object, in declaration order, or the command-set constants (True, True)")
    rep.rule("deflate", "same zlib window for compress and decompress; pad byte only on an odd deflated stream; decode forces explicit LE iff deflated")
    rep.rule("chunked-recv", "chunked receive writes exactly the fragments after a correct preamble/file meta; Event accessors consult the file; the file outlives the handler")
    rep.rule("chunked-send", "a data set sent from file starts at split_dataset's offset, is fragmented like in-memory data and needs an exact transfer-syntax match")
    ds = repo.mod("dsutils")
    sigs = {}
    for fname in ("encode", "decode"):
        fn = ds.funcs.get(fname)
        rep.need(fn is not None, f"dsutils.{fname} vanished")
        sigs[fname] = [a.arg for a in fn.args.args]
        ok = sigs[fname][1:] == ["is_implicit_vr", "is_little_endian", "deflated"]
        rep.check(ok, "codec-flags", f"dsutils.{fname}", f"parameters {sigs[fname]}", "the callee must declare (x, is_implicit_vr, is_little_endian, deflated): every call site is matched against this order", mod=ds, node=fn)
    ATTR = {"is_implicit_vr": "is_implicit_VR", "is_little_endian": "is_little_endian", "deflated": "is_deflated"}

    n_sites = {"encode": 0, "decode": 0}
    for mname, m in sorted(repo.modules.items()):
        short = mname.replace("pynetdicom.", "")
        if short.startswith(("tests.", "benchmarks.", "apps.tests")) or ".tests." in short:
            continue
        for c in ast.walk(m.tree):
            if not (isinstance(c, ast.Call) and isinstance(c.func, ast.Name) and c.func.id in ("encode", "decode")):
                continue
            if not resolves_to(repo, m, c.func.id, "dsutils", c.func.id):
                continue
            kind = c.func.id
            n_sites[kind] += 1
            params = sigs[kind]
            bound = {}
            for i, a in enumerate(c.args):
                if i < len(params):
                    bound[params[i]] = a
            for k in c.keywords:
                if k.arg:
                    bound[k.arg] = k.value
            fq = f"{short}.{qualname(c) or '<module>'}"
            flags = [bound.get(p) for p in params[1:]]
            st = enclosing(c, (ast.stmt,)) or c
            if flags[0] is None or flags[1] is None:
                rep.fail("codec-flags", fq, st, "the VR / byte-order flags are not both given", mod=m, node=c)
                continue
            consts = [isinstance(f, ast.Constant) for f in flags[:2]]
            if all(consts):
                ok = flags[0].value is True and flags[1].value is True and (flags[2] is None or (isinstance(flags[2], ast.Constant) and flags[2].value is False))
                rep.check(ok, "codec-flags", fq, st, "constant flags other than implicit VR little endian (the command-set encoding, PS3.7 6.3.1): a data set or command set is coded with a fixed syntax that is not the negotiated one", mod=m, node=c)
                continue
            objs = []
            okattr = True
            for p, f in zip(params[1:], flags):
                if f is None:
                    okattr = False
                    objs.append(None)
                    continue
                f = strip_cast(f)
                if isinstance(f, ast.Attribute) and f.attr == ATTR[p]:
                    objs.append(norm(f.value))
                else:
                    okattr = False
                    objs.append(norm(f))
            same = okattr and len(set(objs)) == 1
            rep.check(same, "codec-flags", fq, st, f"flags are {[norm(f) if f is not None else 'missing' for f in flags]}: they must be <ts>.is_implicit_VR, <ts>.is_little_endian, <ts>.is_deflated of one transfer-syntax object, in that order (a swapped, missing or foreign flag decodes/encodes with the wrong syntax only for some syntaxes, e.g. big endian or deflated)", mod=m, node=c)
    rep.floor("encode call sites", n_sites["encode"], 25)
    rep.floor("decode call sites", n_sites["decode"], 12)

    # ---- deflate ------------------------------------------------------------------------
    enc, dec = ds.funcs["encode"], ds.funcs["decode"]
    comp = [c for c in walk_no_nested(enc) if isinstance(c, ast.Call) and dotted(c.func) in ("zlib.compressobj", "zlib.compress")]
    deco = [c for c in walk_no_nested(dec) if isinstance(c, ast.Call) and dotted(c.func) in ("zlib.decompress", "zlib.decompressobj")]
    rep.need(len(comp) == 1 and len(deco) == 1, "dsutils: zlib call sites not found")

    def wbits(c):
        n = dotted(c.func)
        if n == "zlib.compressobj":
            a = c.args[2] if len(c.args) > 2 else next((k.value for k in c.keywords if k.arg == "wbits"), None)
        elif n == "zlib.decompress":
            a = c.args[1] if len(c.args) > 1 else next((k.value for k in c.keywords if k.arg == "wbits"), None)
        else:
            a = c.args[0] if c.args else next((k.value for k in c.keywords if k.arg == "wbits"), None)
        return norm(a) if a is not None else "default"

    wc, wd = wbits(comp[0]), wbits(deco[0])
    rep.check(wc == wd and wc == "-zlib.MAX_WBITS", "deflate", "dsutils.encode/decode", f"compress window {wc}, decompress window {wd}", "PS3.5 A.5 deflated transfer syntax is a raw deflate stream (negative window bits); a differing window on one side fails or mis-decodes only for the deflated syntax", mod=ds, node=comp[0])
    # the whole stream is inflated: a decompressobj().decompress(data, max_length) stops at max_length and leaves
    # the rest in .unconsumed_tail - without a loop over it the data set is silently cut there
    for c_ in walk_no_nested(dec):
        if isinstance(c_, ast.Call) and isinstance(c_.func, ast.Attribute) and c_.func.attr == "decompress" and dotted(c_.func) != "zlib.decompress":
            bounded = len(c_.args) > 1 or any(k.arg == "max_length" for k in c_.keywords)
            drains = any(isinstance(x, ast.Attribute) and x.attr == "unconsumed_tail" for x in ast.walk(dec))
            rep.check(not bounded or drains, "deflate", "dsutils.decode", enclosing(c_, (ast.stmt,)), "the inflater is given an output limit and what it leaves in unconsumed_tail is never read: a deflated data set that inflates beyond the limit reaches the handler silently truncated while the status says Success", mod=ds, node=c_)
    check_codec_evaluated(repo, rep)

    # ---- chunked receive ---------------------------------------------------------------------
    dm = repo.mod("dimse_messages")
    dmsg = repo.func("dimse_messages", "DIMSEMessage.decode_msg")
    fqd = "dimse_messages.DIMSEMessage.decode_msg"
    data_ifs = [i for i in walk_no_nested(dmsg) if isinstance(i, ast.If) and norm(i.test) == "self._data_set_file"]
    rep.need(len(data_ifs) >= 1, f"{fqd}: the chunked-receive branch vanished")
    di = data_ifs[0]
    wfile = [norm(s) for s in di.body if isinstance(s, ast.Expr) and ".write(" in norm(s)]
    wmem = [norm(s) for s in di.orelse if isinstance(s, ast.Expr) and ".write(" in norm(s)]
    ok = len(wfile) == 1 and wfile[0] == "self._data_set_file.write(data[1:])" and len(wmem) == 1 and wmem[0].endswith(".write(data[1:])")
    rep.check(ok, "chunked-recv", fqd, f"file: {wfile}; memory: {wmem}", "both storage modes must append exactly the fragment without its one-byte control header", mod=dm, node=di)
    # the data variable is the PDV payload of the loop
    loops = [f for f in walk_no_nested(dmsg) if isinstance(f, ast.For) and norm(f.iter).endswith(".presentation_data_value_list")]
    ok = len(loops) == 1 and isinstance(loops[0].target, ast.Tuple) and norm(loops[0].target.elts[1]) == "data" and any(x is di for x in ast.walk(loops[0]))
    rep.check(ok, "chunked-recv", fqd, "data is the PDV payload of the current fragment", "the written bytes must be the fragment being processed", mod=dm, node=loops[0] if loops else dmsg)
    # preamble / prefix / meta, in order, before any data write
    srcs = [norm(s) for s in ast.walk(dmsg) if isinstance(s, ast.Expr)]
    seq = [i for i, t in enumerate(srcs) if t in ("self._data_set_file.write(b'\\x00' * 128)", "self._data_set_file.write(b'DICM')") or t.startswith("write_file_meta_info(")]
    pre = [srcs[i] for i in seq]
    okh = len(pre) == 3 and pre[0].endswith("* 128)") and pre[1].endswith("b'DICM')") and pre[2].startswith("write_file_meta_info(")
    rep.check(okh, "chunked-recv", fqd, f"file header writes: {[p[:40] for p in pre]}", "the file must start with a 128-byte preamble, 'DICM' and the file meta information, in that order", mod=dm, node=dmsg)
    cfm = [c for c in ast.walk(dmsg) if isinstance(c, ast.Call) and dotted(c.func) == "create_file_meta"]
    okm = False
    if len(cfm) == 1:
        kw = {k.arg: strip_cast(k.value) for k in cfm[0].keywords}
        def src_of(name):
            defs = [s for s in ast.walk(dmsg) if isinstance(s, ast.Assign) and norm(s.targets[0]) == name]
            return norm(strip_cast(defs[0].value)) if len(defs) == 1 else None
        okm = (
            src_of(norm(kw.get("sop_class_uid", ast.Constant(value=0)))) in ("cs.AffectedSOPClassUID", "self.command_set.AffectedSOPClassUID")
            and src_of(norm(kw.get("sop_instance_uid", ast.Constant(value=0)))) in ("cs.AffectedSOPInstanceUID", "self.command_set.AffectedSOPInstanceUID")
            and norm(kw.get("transfer_syntax", ast.Constant(value=0))) == "cx.transfer_syntax[0]"
            and src_of("cx") is not None and src_of("cx").endswith("._accepted_cx[context_id]")
        )
    rep.check(okm, "chunked-recv", fqd, cfm[0] if cfm else "create_file_meta(..)", "the file meta must name the command set's SOP class and instance and the transfer syntax of the accepted context the message arrived on: a wrong transfer syntax makes the stored file decode differently from what was sent", mod=dm, node=cfm[0] if cfm else dmsg)
    # Event accessors
    evm = repo.mod("events")
    ec = repo.cls("events", "Event")
    n_acc = 0
    for name, fn in list(ec.getters.items()) + list(ec.methods.items()):
        srcf = " ".join(norm(s) for s in walk_no_nested(fn) if isinstance(s, ast.stmt))
        reads = [n for n in walk_no_nested(fn) if (isinstance(n, ast.Attribute) and n.attr == "DataSet") or (isinstance(n, ast.Constant) and n.value == "DataSet" and isinstance(parent(n), ast.Call) and norm(parent(n).func) == "self._get_dataset")]
        if not reads:
            continue
        n_acc += 1
        consult = any(isinstance(n, ast.Attribute) and n.attr in ("_dataset_path", "dataset_path") for n in walk_no_nested(fn)) or any(isinstance(n, ast.Constant) and n.value == "_dataset_path" for n in walk_no_nested(fn))
        rep.check(consult, "chunked-recv", f"events.Event.{name}", f"reads the request's DataSet {'and' if consult else 'without'} consulting _dataset_path", "in chunked-receive mode the data set lives in the file and request.DataSet is empty: an accessor that only reads DataSet presents an empty data set to the handler", mod=evm, node=fn)
    rep.floor("Event accessors reading DataSet", n_acc, 2)
    # the file outlives the handler
    scm = repo.mod("service_class")
    scp = repo.func("service_class", "StorageServiceClass.SCP")
    cfg = CFG(scp, body=body_nodoc(scp), local_exc_only=True)
    trg = [n for n in cfg.nodes if n.kind == "stmt" and any((dotted(c.func) or "") == "evt.trigger" for c in calls_at(n))]
    unl = [n for n in cfg.nodes if n.kind == "stmt" and any((dotted(c.func) or "") in ("os.unlink", "os.remove") or norm(c.func).endswith("_dataset_file.close") for c in calls_at(n))]
    rep.need(len(trg) == 1 and unl, "service_class.StorageServiceClass.SCP: trigger / cleanup not found")
    rep.check(all(cfg.dominates(trg[0], u) for u in unl), "chunked-recv", "service_class.StorageServiceClass.SCP", "handler runs before the temporary file is closed and removed", "the chunked data set file must exist while the handler reads it", mod=scm, node=unl[0].ast)

    # ---- chunked send ---------------------------------------------------------------------------
    am = repo.mod("association")
    scs = repo.func("association", "Association.send_c_store")
    fqs = "association.Association.send_c_store"
    sd = [s for s in walk_no_nested(scs) if isinstance(s, ast.Assign) and isinstance(s.value, ast.Call) and dotted(s.value.func) == "split_dataset"]
    setp = [s for s in walk_no_nested(scs) if isinstance(s, ast.Assign) and norm(s.targets[0]) == "req._dataset_path"]
    ok = len(sd) == 1 and len(setp) == 1 and isinstance(sd[0].targets[0], ast.Tuple)
    if ok:
        meta_v, off_v = [norm(e) for e in sd[0].targets[0].elts]
        path_arg = norm(sd[0].value.args[0])
        ok = norm(setp[0].value) == f"({path_arg}, {off_v})"
    rep.check(ok, "chunked-send", fqs, setp[0] if setp else "req._dataset_path = ..", "the path/offset pair handed to the DIMSE layer must be the file and the offset split_dataset computed for it (start of the data set after the file meta)", mod=am, node=setp[0] if setp else scs)
    conv = [s for s in walk_no_nested(scs) if isinstance(s, ast.Assign) and norm(s.targets[0]) == "allow_conversion"]
    okc = False
    if setp:
        blk = parent(setp[0])
        body = getattr(blk, "orelse", []) if setp[0] in getattr(blk, "orelse", []) else getattr(blk, "body", [])
        okc = any(norm(s) == "allow_conversion = False" for s in body)
    gvc = [c for c in walk_no_nested(scs) if isinstance(c, ast.Call) and norm(c.func) == "self._get_valid_context"]
    okc = okc and len(gvc) == 1 and any(k.arg == "allow_conversion" and norm(k.value) == "allow_conversion" for k in gvc[0].keywords)
    rep.check(okc, "chunked-send", fqs, "allow_conversion = False with the file path; passed to _get_valid_context", "bytes sent straight from a file cannot be re-encoded: the context must have exactly the file's transfer syntax", mod=am, node=gvc[0] if gvc else scs)
    ts = [s for s in walk_no_nested(scs) if isinstance(s, ast.Assign) and norm(s.targets[0]) == "tsyntax" and "file_meta.TransferSyntaxUID" in norm(s.value)]
    rep.check(len(ts) >= 2 or any(norm(strip_cast(s.value)) == f"{meta_v}.TransferSyntaxUID" for s in ts) if sd else False, "chunked-send", fqs, "tsyntax read from the file's own meta information", "the exact-match transfer syntax must be the one the file is written in", mod=am, node=scs)
    # split_dataset: offset = position after the group 0002 elements
    sp = ds.funcs.get("split_dataset")
    rep.need(sp is not None, "dsutils.split_dataset vanished")
    rets = [r for r in walk_no_nested(sp) if isinstance(r, ast.Return)]
    okr = len(rets) == 1 and isinstance(rets[0].value, ast.Tuple) and "tell()" in norm(rets[0].value.elts[1])
    rep.check(okr, "chunked-send", "dsutils.split_dataset", rets[0] if rets else "return", "the offset must be the stream position after reading the file meta group", mod=ds, node=sp)
    # encode_msg: file branch seeks to the offset and reads with the same size limits
    em = repo.func("dimse_messages", "DIMSEMessage.encode_msg")
    seeks = sorted([c for c in ast.walk(em) if isinstance(c, ast.Call) and isinstance(c.func, ast.Attribute) and c.func.attr == "seek"], key=lambda c: (c.lineno, c.col_offset))
    reads = sorted([c for c in ast.walk(em) if isinstance(c, ast.Call) and isinstance(c.func, ast.Attribute) and c.func.attr == "read" and any(x is c for w in ast.walk(em) if isinstance(w, ast.With) for x in ast.walk(w))], key=lambda c: (c.lineno, c.col_offset))
    off_texts = {"self._data_set_path[1]"}
    for s_ in ast.walk(em):
        if isinstance(s_, ast.Assign) and isinstance(s_.targets[0], ast.Tuple) and norm(strip_cast(s_.value)).endswith("_data_set_path") and len(s_.targets[0].elts) == 2:
            off_texts.add(norm(s_.targets[0].elts[1]))
    before = [c for c in seeks if reads and (c.lineno, c.col_offset) < (reads[0].lineno, reads[0].col_offset)]
    oks = bool(before) and len(before[-1].args) == 1 and norm(strip_cast(before[-1].args[0])) in off_texts and not [c for c in seeks if c not in before]
    rep.check(oks, "chunked-send", "dimse_messages.DIMSEMessage.encode_msg", before[-1] if before else "f.seek(offset)", "the last positioning before the fragments are read must be a seek to the data set's offset (the preamble and file meta are not part of the data set), and nothing may reposition the file between fragments", mod=dm, node=before[-1] if before else em)
    rep.floor("file reads in encode_msg", len(reads), 2)

    # ---- handler-side decode uses the request context's transfer syntax ----------------------
    gd = repo.func("events", "Event._get_dataset")
    dcalls = [c for c in walk_no_nested(gd) if isinstance(c, ast.Call) and isinstance(c.func, ast.Name) and c.func.id == "decode"]
    rep.need(len(dcalls) == 1, "events.Event._get_dataset: decode call vanished")
    tsobj = norm(strip_cast(dcalls[0].args[1]).value) if len(dcalls[0].args) > 1 and isinstance(strip_cast(dcalls[0].args[1]), ast.Attribute) else None
    src = tsobj
    defs = [s_ for s_ in walk_no_nested(gd) if isinstance(s_, ast.Assign) and norm(s_.targets[0]) == tsobj]
    if len(defs) == 1:
        src = norm(strip_cast(defs[0].value))
    rep.check(src == "self.context.transfer_syntax", "codec-flags", "events.Event._get_dataset", f"decode flags come from {src}", "the handler-side decode must use the transfer syntax of the context the request arrived on (Event.context), not any other syntax", mod=evm, node=dcalls[0])
    bs = [s_ for s_ in walk_no_nested(gd) if isinstance(s_, ast.Assign) and norm(s_.targets[0]) == norm(dcalls[0].args[0])]
    rep.check(len(bs) == 1 and norm(bs[0].value) == "getattr(self.request, attr)", "codec-flags", "events.Event._get_dataset", bs[0] if bs else "bytestream", "the decoded stream must be the named data-set parameter of this event's request", mod=evm, node=gd)

    # ---- the context a handler decodes with is the one the request arrived on ------------------
    rep.rule("event-context", "the `context` given to a DIMSE handler's event is the presentation context of the request's own id")
    from .c26 import event_kinds
    kinds = event_kinds(repo)
    n_ctx = 0
    for mname, m in sorted(repo.modules.items()):
        short = mname.replace("pynetdicom.", "")
        if short.startswith(("apps.", "tests.", "benchmarks.")) or short == "events":
            continue
        for c in ast.walk(m.tree):
            if not (isinstance(c, ast.Call) and (dotted(c.func) or "") == "evt.trigger" and len(c.args) >= 3 and isinstance(c.args[2], ast.Dict)):
                continue
            en = (dotted(c.args[1]) or "").split(".")[-1]
            if kinds.get(en) != "InterventionEvent" or not (en.startswith("EVT_C_") or en.startswith("EVT_N_")):
                continue
            attrs = {k.value: v for k, v in zip(c.args[2].keys, c.args[2].values) if isinstance(k, ast.Constant)}
            fn = enclosing(c, (ast.FunctionDef,))
            fqn = f"{short}.{qualname(c)}"
            n_ctx += 1
            cv = attrs.get("context")
            ok = cv is not None and isinstance(cv, ast.Attribute) and cv.attr == "as_tuple" and isinstance(cv.value, ast.Name)
            src_ok = False
            if ok:
                var = cv.value.id
                params = [a.arg for a in fn.args.args]
                rebound = [s_ for s_ in walk_no_nested(fn) if isinstance(s_, ast.Assign) and norm(s_.targets[0]) == var]
                if var in params and not rebound:
                    src_ok = True  # the SCP's context parameter: _serve_request looked it up by the request's id (C19)
                elif len(rebound) == 1 and isinstance(strip_cast(rebound[0].value), ast.Call) and norm(strip_cast(rebound[0].value).func) == "self._get_valid_context":
                    kw = {k.arg: norm(k.value) for k in strip_cast(rebound[0].value).keywords}
                    rq = norm(attrs["request"]) if "request" in attrs else "req"
                    src_ok = kw.get("context_id") == f"{rq}._context_id"
            rep.check(ok and src_ok, "event-context", fqn, enclosing(c, (ast.stmt,)), f"the event of {en} carries a context that is not tied to the request's own presentation context id: Event.dataset / identifier / encoded_dataset then decode the received bytes with another context's transfer syntax (wrong byte order / deflate) when two accepted contexts share the SOP class", mod=m, node=c)
    rep.floor("DIMSE handler events carrying a context", n_ctx, 13)

    # ---- the fragments written are the fragments read ---------------------------------------------------
    from ..delegate import delegate
    rep.rule("fragments-complete", "the data-set bytes are cut into consecutive fragments that together are the whole data set and are re-joined in order (C15's fragmentation rules)")
    delegate(repo, rep, tier, "C15", ("overhead", "overhead-count", "order-flags", "reader-bits", "reader-complete", "one-pdv", "file-offset"), "fragments-complete", "for some data-set length and peer maximum the bytes that arrive are not the bytes that were sent (a tail that is never sent, a fragment read out of place)")

    rep.rule("dataset-whole", "data sets travel between primitive and message as whole buffers, never relative to a stream position (C16's position-independent rule)")
    delegate(repo, rep, tier, "C16", ("position-independent",), "dataset-whole", "a forwarded or re-sent data set arrives empty or cut: the bytes before the stream position are left out")
    rep.rule("bytes-complete", "what AssociationSocket.recv returns is exactly the bytes the socket delivered (C03's recv-exact): a broken connection gives a short PDU, never padding or stale bytes")
    delegate(repo, rep, tier, "C03", ("recv-exact",), "bytes-complete", "a PDU cut short by a broken connection is completed to its announced length with zeros or with bytes of an earlier PDU: the length check passes and the EVT_C_STORE handler is given a data set of the right size with a wrong tail")
    check_store_subop_dataset_intact(repo, rep)
    check_chunk_file_flushed(repo, rep)
    check_receive_mode_decided_once(repo, rep)
    from ..lints import no_memoised_io
    rep.rule("no-stale-meta", "no function whose result depends on a file or on configuration is memoised")
    rep.floor("functions scanned for memoising decorators", no_memoised_io(repo, rep, "no-stale-meta"), 500)


def check_store_subop_dataset_intact(repo: Repo, rep: Report) -> None:
    """A data set the C-GET / C-MOVE handler yields is sent to the destination as it is. The one documented
    exception is the Composite Instance Retrieve Without Bulk Data service (SOP class
    1.2.840.10008.5.1.4.1.2.5.3), for which bulk data is stripped: every statement of _get_scp / _move_scp that
    removes something from the yielded data set (del x[..], del x.attr, delattr, pop, a deleting loop) must be
    under the test for that SOP class."""
    rep.rule("subop-intact", "_get_scp / _move_scp remove elements from the handler's data set only under the Without-Bulk-Data SOP class test")
    sc = repo.mod("service_class")
    n = 0
    for q in ("QueryRetrieveServiceClass._get_scp", "QueryRetrieveServiceClass._move_scp"):
        fn = repo.func("service_class", q)
        fq = f"service_class.{q}"
        for x in walk_no_nested(fn):
            removes = None
            if isinstance(x, ast.Delete):
                removes = x
            elif isinstance(x, ast.Expr) and isinstance(x.value, ast.Call) and (norm(x.value.func) == "delattr" or (isinstance(x.value.func, ast.Attribute) and x.value.func.attr in ("pop", "popitem", "clear", "remove_private_tags") and norm(x.value.func.value) in ("dataset", "ds_copy"))):
                removes = x
            if removes is None:
                continue
            txt = norm(removes)
            if not any(k in txt for k in ("dataset", "item", "seq")):
                continue
            n += 1
            g = enclosing(removes, (ast.If,))
            ok = False
            while g is not None and not ok:
                if "1.2.840.10008.5.1.4.1.2.5.3" in norm(g.test) or "WithoutBulkData" in norm(g.test):
                    ok = any(y is removes for s_ in g.body for y in ast.walk(s_))
                g = enclosing(g, (ast.If,))
            rep.check(ok, "subop-intact", fq, removes, f"`{txt[:60]}` removes elements from the data set the handler yielded outside the Composite Instance Retrieve Without Bulk Data test: every retrieved instance loses them (e.g. overlay / curve / audio data of the 50xx / 60xx repeating groups) although the sub-operation reports Success", mod=sc, node=removes)
    rep.floor("element removals in the C-GET / C-MOVE SCPs", n, 2)


def check_chunk_file_flushed(repo: Repo, rep: Report) -> None:
    """Chunked receive: each data-set fragment is written to the temporary file and must be on disk before
    anything reads the file through its path (Event.dataset / dataset_path / encoded_dataset). Either the
    fragment write in decode_msg is followed by a flush in the same block, or *every* function that triggers
    EVT_C_STORE flushes the request's file first - the Storage SCP and the requestor-side _c_store_scp (C-GET
    sub-operations) alike."""
    rep.rule("chunk-flushed", "the chunk file is flushed after every fragment, or before the handler in every EVT_C_STORE trigger site")
    msgs = repo.mod("dimse_messages")
    dec = repo.func("dimse_messages", "DIMSEMessage.decode_msg")
    writes = [c for c in walk_no_nested(dec) if isinstance(c, ast.Call) and isinstance(c.func, ast.Attribute) and c.func.attr == "write" and norm(c.func.value) == "self._data_set_file" and c.args and isinstance(c.args[0], ast.Subscript)]
    if not writes:
        rep.defer("dimse_messages.DIMSEMessage.decode_msg: the fragment write to the chunk file was not found")
        return
    all_local = True
    for w in writes:
        st = enclosing(w, (ast.stmt,))
        blk = next((b for p in ast.walk(dec) for b in (getattr(p, "body", None), getattr(p, "orelse", None)) if isinstance(b, list) and any(x is st for x in b)), [])
        k = next((i for i, x in enumerate(blk) if x is st), -1)
        after = blk[k + 1:] if k >= 0 else []
        if not any(isinstance(s_, ast.Expr) and isinstance(s_.value, ast.Call) and isinstance(s_.value.func, ast.Attribute) and s_.value.func.attr == "flush" and norm(s_.value.func.value).startswith("self._data_set_file") for s_ in after):
            all_local = False
    if all_local:
        rep.ok("chunk-flushed", "dimse_messages.DIMSEMessage.decode_msg :: every fragment write is followed by a flush")
        return
    # otherwise: every trigger site of EVT_C_STORE must be dominated by a flush of the request's file
    bad = []
    for mname, q in (("service_class", "StorageServiceClass.SCP"), ("association", "Association._c_store_scp")):
        fn = repo.func(mname, q)
        cfg = CFG(fn, body=body_nodoc(fn), local_exc_only=True)
        trig = [n for n in cfg.nodes if n.ast is not None and n.kind in ("stmt", "with_enter") and any(norm(c.func) == "evt.trigger" and len(c.args) > 1 and norm(c.args[1]).endswith("EVT_C_STORE") for c in calls_at(n))]
        fl = [n for n in cfg.nodes if n.kind == "stmt" and any(isinstance(c.func, ast.Attribute) and c.func.attr == "flush" and "_dataset_file" in norm(c.func.value) for c in calls_at(n))]
        # `if req._dataset_file: req._dataset_file.flush()` - flushing when there is a file - counts through its test
        guards = [n for n in cfg.nodes if n.kind == "test" and "_dataset_file" in norm(n.ast.test) and any(f_.ast in list(ast.walk(ast.Module(body=n.ast.body, type_ignores=[]))) for f_ in fl)]
        for t in trig:
            if not any(cfg.dominates(f_, t) for f_ in fl + guards):
                bad.append((mname, q, t))
    for mname, q, t in bad:
        rep.fail("chunk-flushed", f"{mname}.{q}", t.ast, "decode_msg no longer flushes the chunk file after each fragment and this EVT_C_STORE trigger site does not flush it either: its handler reads a truncated (or empty) file through Event.dataset / dataset_path / encoded_dataset while the status says Success", mod=repo.mod(mname), node=t.ast)
    if not bad:
        rep.ok("chunk-flushed", "every EVT_C_STORE trigger site flushes the request's chunk file first")


def check_receive_mode_decided_once(repo: Repo, rep: Report, rule: str = "mode-decided-once") -> None:
    """Whether a received C-STORE data set is kept in memory or written to a file is decided once, by the
    reader, when the command set arrives (it tests the configuration flag and records the outcome on the
    request as `_dataset_path`). Everything downstream - Event.dataset, Event.encoded_dataset(), the storage
    SCP - must follow what the *request* says: a second read of the global flag at handler time can disagree
    with the first (another thread toggled it, a queued handler, a per-peer policy) and the handler is given
    an empty data set although the file holds all of it."""
    rep.rule(rule, "_config.STORE_RECV_CHUNKED_DATASET is read only where the data set is received; consumers follow the request's own _dataset_path")
    from .c27 import pkg_modules

    n = 0
    readers = []
    for short, m in pkg_modules(repo):
        if short == "_config":
            continue
        imported = any(isinstance(i, ast.ImportFrom) and (i.module or "").endswith("_config") and any(a.name == "STORE_RECV_CHUNKED_DATASET" for a in i.names) for i in ast.walk(m.tree))
        for x in ast.walk(m.tree):
            hit = isinstance(x, ast.Attribute) and x.attr == "STORE_RECV_CHUNKED_DATASET" and isinstance(x.ctx, ast.Load)
            hit = hit or (imported and isinstance(x, ast.Name) and x.id == "STORE_RECV_CHUNKED_DATASET" and isinstance(x.ctx, ast.Load))
            hit = hit or (isinstance(x, ast.Call) and dotted(x.func) == "getattr" and len(x.args) >= 2 and isinstance(x.args[1], ast.Constant) and x.args[1].value == "STORE_RECV_CHUNKED_DATASET")
            if hit:
                n += 1
                readers.append((short, m, x))
    for short, m, x in readers:
        q = f"{short}.{qualname(x)}"
        rep.check(short in ("dimse_messages", "dimse"), rule, q, enclosing(x, (ast.stmt,)) or x, "the receive mode is read from the global configuration a second time, outside the reader that decided where this request's data set went: when the flag has changed in between the consumer looks in the wrong place - the handler gets an empty Dataset / b'' (or the SCP tries to read a file that was never written) while the bytes that arrived are elsewhere", mod=m, node=x)
    rep.floor("reads of STORE_RECV_CHUNKED_DATASET", n, 1)


class _Stream:
    """io.BytesIO as far as dsutils uses one"""

    _minipy_methods = {"seek", "getvalue", "read", "tell", "write", "close", "getbuffer"}

    def __init__(self, content=b"", pos=0):
        self.content, self.pos = bytes(content), pos

    def seek(self, off, whence=0):
        self.pos = off if whence == 0 else self.pos + off if whence == 1 else len(self.content) + off
        return self.pos

    def tell(self):
        return self.pos

    def getvalue(self):
        return self.content

    def getbuffer(self):
        return self.content

    def read(self, n=-1):
        out = self.content[self.pos:] if n is None or n < 0 else self.content[self.pos:self.pos + n]
        self.pos += len(out)
        return out

    def write(self, b):
        self.content = self.content[:self.pos] + bytes(b) + self.content[self.pos + len(b):]
        self.pos += len(b)
        return len(b)

    def close(self):
        return None


class _Compressor:
    _minipy_methods = {"compress", "flush"}

    def __init__(self, wbits):
        self.wbits = wbits

    def compress(self, data):
        return b"Z" + str(self.wbits).encode() + b"[" + bytes(data)

    def flush(self, *a):
        return b"]"


def check_codec_evaluated(repo: Repo, rep: Report, rule: str = "deflate") -> None:
    """dsutils.encode() and decode(), evaluated (sa/minipy.py) with recording stand-ins for the pydicom writer /
    reader and a marker transform for zlib: for every combination of the three flags the writer must be given
    exactly the VR / byte-order flags of the call, (de)compression must happen exactly when `deflated` is set,
    with a raw-deflate window, the deflated stream is padded to even length with one NUL and nothing else is,
    decode() reads the whole stream (rewound) and treats a deflated data set as explicit VR little endian."""
    from ..minipy import Interp, Obj, Raised, Unsupported

    ds = repo.mod("dsutils")
    enc, dec = ds.funcs["encode"], ds.funcs["decode"]

    def zmod():
        def _decompress(s_, data, wbits=15, *a):
            data = bytes(data)
            pre = b"Z" + str(wbits).encode() + b"["
            body = data.rstrip(b"\x00")
            if not (body.startswith(pre) and body.endswith(b"]")):
                raise Raised("zlib.error")
            return body[len(pre):-1]

        return Obj("zlib", {"MAX_WBITS": 15, "Z_DEFAULT_COMPRESSION": -1, "Z_BEST_COMPRESSION": 9, "DEFLATED": 8,
                            "@compressobj": lambda s_, level=-1, method=8, wbits=15, *a, **k: _Compressor(wbits),
                            "@compress": lambda s_, data, level=-1, wbits=15: b"Z" + str(wbits).encode() + b"[" + bytes(data) + b"]",
                            "@decompress": _decompress,
                            "@decompressobj": lambda s_, wbits=15: None})

    n = 0
    try:
        for iv, le, dfl in [(a_, b_, c_) for a_ in (True, False) for b_ in (True, False) for c_ in (False, True)]:
            for payload in (b"ab", b"abc"):
                calls = []

                def write_dataset(fp, dset, calls=calls, payload=payload):
                    flags = (fp.get("is_implicit_VR"), fp.get("is_little_endian"))
                    calls.append(flags)
                    fp.attrs["_buf"].write(b"DS|" + repr(flags).encode() + b"|" + payload)

                def new_fp():
                    buf = _Stream()
                    return Obj("DicomBytesIO", {"is_implicit_VR": None, "is_little_endian": None, "_buf": buf, "parent": buf, "@getvalue": lambda s_: buf.getvalue(), "@close": lambda s_: None, "@seek": lambda s_, *a: buf.seek(*a), "@read": lambda s_, *a: buf.read(*a)})

                it = Interp({"zlib": zmod(), "write_dataset": write_dataset, "len": len}, classes={"DicomBytesIO": new_fp, "BytesIO": lambda *a: _Stream(*a)})
                params = [a.arg for a in enc.args.args]
                n += 1
                try:
                    out = it.call_function(enc, dict(zip(params, [Obj("Dataset", {}), iv, le, dfl])))
                except Raised as r_:
                    out = f"raises {r_.kind}"
                plain = b"DS|" + repr((iv, le)).encode() + b"|" + payload
                if dfl:
                    want = b"Z-15[" + plain + b"]"
                    want += b"\x00" if len(want) % 2 else b""
                else:
                    want = plain
                ok = isinstance(out, (bytes, bytearray)) and bytes(out) == want and calls == [(iv, le)]
                rep.check(ok, rule, "dsutils.encode", f"encode(ds, implicit={iv}, little={le}, deflated={dfl}), {len(plain)} encoded bytes -> {out!r:.60}", f"the writer must be run once with exactly the VR / byte-order flags of the call, the result deflated (raw deflate, window -MAX_WBITS) exactly when `deflated` is set and then padded to even length with one NUL, and left alone otherwise; expected {want!r:.60}: otherwise the peer decodes other bytes than were encoded (or cannot decode them)", mod=ds, node=enc)
        for iv, le, dfl in ((True, True, False), (False, True, False), (False, False, False), (False, True, True), (True, False, True)):
            for pad in (b"", b"\x00"):
                seen = []

                def read_dataset(bs, a, b, *rest, seen=seen, **kw):
                    seen.append((bs.read() if hasattr(bs, "read") else None, a, b))
                    return Obj("Dataset", {})

                inner = b"DATA-SET"
                wire = (b"Z-15[" + inner + b"]" + pad) if dfl else inner + pad
                stream = _Stream(wire, pos=len(wire))  # as left by the writes that filled it
                it = Interp({"zlib": zmod(), "read_dataset": read_dataset}, classes={"BytesIO": lambda *a: _Stream(*a)})
                params = [a.arg for a in dec.args.args]
                n += 1
                try:
                    it.call_function(dec, dict(zip(params, [stream, iv, le, dfl])))
                    got = seen[0] if len(seen) == 1 else f"{len(seen)} reads"
                except Raised as r_:
                    got = f"raises {r_.kind}"
                want = (inner, False, True) if dfl else (wire, iv, le)
                rep.check(got == want, rule, "dsutils.decode", f"decode(stream, implicit={iv}, little={le}, deflated={dfl}) -> reader given {got!r:.70}", f"the reader must be given the whole stream from its start (inflated with a raw-deflate window exactly when `deflated` is set) with the flags of the call - explicit VR little endian for a deflated data set; expected {want!r:.70}", mod=ds, node=dec)
    except Unsupported as exc:
        rep.defer(f"dsutils.encode / decode could not be evaluated ({exc})")
    rep.floor("encode / decode evaluations", n, 15)
