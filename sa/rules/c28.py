"""C28 - every status code has one category and all status tables agree with it."""

from __future__ import annotations

import ast
import json

from ..consteval import Evaluator, Unknown, module_tables
from ..loader import AnalysisError, Repo, body_nodoc, dotted, norm, walk_no_nested, qualname, enclosing
from ..report import Report, VERIF

LEVEL = "proof"
EXPLANATION = (
    "code_to_category's if-chain is read from the syntax tree into an ordered list of "
    "(membership test, category) clauses and evaluated (the extracted model, not the code) on "
    "all 65536 status values against the PS3.7 Annex C classes; every status table is rebuilt "
    "statically from its literal, range loops and .update() calls and every (table, code) "
    "entry compared with the map; the SCU and SCP finality tests are shown to read those two "
    "sources. Exhaustive over a finite space."
    " Third session: (docs-agreement) every status code the service-class documentation lists for a service is a key of the table that service's SCP consults (implementation-specific ranges excluded); (category-use) borrowed from C22's classification rule: the Get / Move SCP files a sub-operation's status under the counter of its category; (scp-finality) borrowed from C20."
    " Fifth round: (category-use) borrows C22's evaluated classification; the SCU-side category must come from `code_to_category` (tuple unpacking followed); the status tables are not written at run time."
    " Fifth round (end): (category-use) also borrows C21's n-reply evaluation; (category-test-complete) a by-value test of a status against members of a small category (Pending) names every member."
    ' Sixth round: (docs-agreement) documented ranges are compared code by code, both ends included; tables built through a helper are followed.'
)


def _spec_map():
    sp = json.loads((VERIF / "spec" / "ps3_7_status.json").read_text())
    m = {}
    for cls, d in sp["classes"].items():
        for v in d.get("values", []):
            m[int(v, 16)] = cls
        for lo, hi in d.get("ranges", []):
            for c in range(int(lo, 16), int(hi, 16) + 1):
                assert c not in m, (cls, hex(c))
                m[c] = cls
    return sp, m


UNIVERSE = range(0x10000)


def test_set(t: ast.AST, p: str, ev) -> set:
    """the set of 16-bit codes for which test `t` over parameter `p` holds; constants (literals, module-level
    names, range / list / frozenset expressions) are evaluated statically"""
    if isinstance(t, ast.BoolOp):
        parts = [test_set(v, p, ev) for v in t.values]
        out = parts[0]
        for x in parts[1:]:
            out = (out | x) if isinstance(t.op, ast.Or) else (out & x)
        return out
    if isinstance(t, ast.UnaryOp) and isinstance(t.op, ast.Not):
        return set(UNIVERSE) - test_set(t.operand, p, ev)
    if isinstance(t, ast.Compare):
        operands = [t.left] + list(t.comparators)
        vals = []
        for o in operands:
            if isinstance(o, ast.Name) and o.id == p:
                vals.append(None)  # the code itself
            else:
                vals.append(ev.eval(o))
        import operator as _op
        fns = {ast.Eq: _op.eq, ast.NotEq: _op.ne, ast.Lt: _op.lt, ast.LtE: _op.le, ast.Gt: _op.gt, ast.GtE: _op.ge, ast.In: lambda a, b: a in b, ast.NotIn: lambda a, b: a not in b}
        for o_ in t.ops:
            if type(o_) not in fns:
                raise AnalysisError(f"code_to_category: operator {type(o_).__name__} not modelled")
        # membership in large containers: pre-convert to sets
        vals = [set(v) if isinstance(v, (list, tuple, frozenset, range)) and not isinstance(v, range) else v for v in vals]
        out = set()
        for code in UNIVERSE:
            xs = [code if v is None else v for v in vals]
            ok = True
            for i, o_ in enumerate(t.ops):
                if not fns[type(o_)](xs[i], xs[i + 1]):
                    ok = False
                    break
            if ok:
                out.add(code)
        return out
    raise AnalysisError(f"code_to_category: test kind {type(t).__name__} not modelled: {norm(t)[:60]}")


def extract_chain(repo: Repo, rep: Report):
    mod = repo.mod("status")
    fn = repo.func("status", "code_to_category")
    ev = Evaluator(repo, mod)
    p = fn.args.args[0].arg
    body = body_nodoc(fn)
    rep.need(len(body) == 2 and isinstance(body[0], ast.If) and isinstance(body[1], ast.Raise), "code_to_category: outer shape (guard-if, raise) not recognised")
    guard = norm(body[0].test)
    rep.need(guard == f"isinstance({p}, int) and {p} >= 0", f"code_to_category: guard not recognised: {guard}")
    clauses = []
    default = None
    for st in body[0].body:
        if isinstance(st, ast.If):
            rep.need(not st.orelse and len(st.body) == 1 and isinstance(st.body[0], ast.Return), f"code_to_category: clause shape at line {st.lineno}")
            t = st.test
            try:
                member = test_set(t, p, ev)
                cat = ev.eval(st.body[0].value)
            except Unknown as exc:
                raise AnalysisError(f"code_to_category line {st.lineno}: {exc}")
            clauses.append((member, cat, st))
        elif isinstance(st, ast.Return):
            default = ev.eval(st.value)
            break
        else:
            raise AnalysisError(f"code_to_category: statement kind at line {st.lineno}")
    rep.need(default is not None, "code_to_category: no default return")
    return clauses, default, mod, fn


def run(repo: Repo, rep: Report, tier: str) -> None:
    sp, smap = _spec_map()
    rep.rule("category-map", "code_to_category(c) == PS3.7 Annex C class of c, for every c in 0..65535 (total, single-valued)")
    rep.rule("table-agreement", "every (code -> (category, text)) entry of every status table has category == code_to_category(code)")
    rep.rule("finality-source", "SCU finality tests read code_to_category(rsp.Status); SCP tests read self.statuses[rsp.Status][0]")
    clauses, default, mod, fn = extract_chain(repo, rep)
    ev = Evaluator(repo, mod)
    names = {k: ev.name(v) for k, v in sp["category_names"].items()}
    rep.need(len(set(names.values())) == 6, "the six category constants are not distinct")

    def model(code: int) -> str:
        for member, cat, _ in clauses:
            if code in member:
                return cat
        return default

    bad = {}
    for code in range(0x10000):
        want = names[smap.get(code, sp["default"])]
        got = model(code)
        if got != want:
            bad.setdefault((got, want), []).append(code)
    n_ok = 0x10000 - sum(len(v) for v in bad.values())
    # one obligation per maximal interval of equal category in the spec (keeps evidence readable)
    start = 0
    intervals = []
    for code in range(1, 0x10001):
        if code == 0x10000 or smap.get(code, "Unknown") != smap.get(start, "Unknown"):
            intervals.append((start, code - 1, smap.get(start, "Unknown")))
            start = code
    for lo, hi, cls in intervals:
        wrong = [c for c in range(lo, hi + 1) if model(c) != names[cls]]
        if wrong:
            cl = next((c for c in clauses if wrong[0] in c[0]), None)
            rep.fail("category-map", "status.code_to_category", f"0x{lo:04X}-0x{hi:04X} -> {cls}", f"{len(wrong)} codes in 0x{lo:04X}..0x{hi:04X} map to {model(wrong[0])!r}, PS3.7 Annex C says {cls} (first 0x{wrong[0]:04X})", mod=mod, node=(cl[2] if cl else fn))
        else:
            rep.ok("category-map", f"0x{lo:04X}-0x{hi:04X} -> {cls}", f"{hi - lo + 1} codes")
    rep.floor("status values evaluated", 0x10000, 0x10000)
    rep.floor("clauses in code_to_category", len(clauses), 5)
    rep.extra["codes_checked"] = 0x10000
    rep.extra["codes_agreeing"] = n_ok
    rep.extra["exhaustive"] = True
    rep.sample({"code": "0xB001", "model": model(0xB001), "spec": smap.get(0xB001)})
    rep.sample({"code": "0x011A", "model": model(0x011A), "spec": smap.get(0x011A, "Unknown")})

    # ---- tables -------------------------------------------------------------
    tables = {k: v for k, v in module_tables(repo, mod).items() if k.endswith("_STATUS")}
    rep.floor("status tables", len(tables), 18)
    n_entries = 0
    for name, tab in sorted(tables.items()):
        rep.saw("status tables", f"{name} ({len(tab)} codes)")
        wrong = []
        for code, val in tab.items():
            n_entries += 1
            rep.need(isinstance(code, int) and isinstance(val, tuple) and len(val) == 2, f"{name}: entry shape")
            if not (0 <= code <= 0xFFFF):
                wrong.append((code, val[0], "outside 16 bits"))
            elif val[0] != model(code):
                wrong.append((code, val[0], model(code)))
        if wrong:
            for code, got, want in wrong[:8]:
                rep.fail("table-agreement", f"status.{name}", f"0x{code:04X}: {got}", f"table says {got!r}, code_to_category says {want!r}", mod=mod, node=mod.assign_stmts[name][0])
        else:
            rep.ok("table-agreement", name, f"{len(tab)} codes agree")
    rep.floor("table entries", n_entries, 20000)
    check_docs_agreement(repo, rep, tables)
    rep.extra["table_entries_checked"] = n_entries

    # ---- finality sources ----------------------------------------------------
    assoc = repo.mod("association")
    n_scu = 0
    for fname in ("_wrap_find_responses", "_wrap_get_move_responses"):
        f = repo.func("association", f"Association.{fname}")
        # the variable whose comparison with STATUS_PENDING decides 'another response follows'
        pend_tests = [n for n in walk_no_nested(f) if isinstance(n, ast.Compare) and len(n.ops) == 1 and "STATUS_PENDING" in norm(n) and (isinstance(n.left, ast.Name) or isinstance(n.comparators[0], ast.Name))]
        cat_names = {(n.left.id if isinstance(n.left, ast.Name) and n.left.id != "STATUS_PENDING" else n.comparators[0].id) for n in pend_tests if isinstance(n.left, ast.Name) or isinstance(n.comparators[0], ast.Name)} - {"STATUS_PENDING"}
        rep.need(cat_names, f"association.Association.{fname}: no comparison of the response category with STATUS_PENDING")
        assigns = []
        for s_ in walk_no_nested(f):
            if isinstance(s_, ast.Assign):
                for t_ in s_.targets:
                    if isinstance(t_, ast.Name) and t_.id in cat_names:
                        assigns.append((s_, s_.value))
                    elif isinstance(t_, (ast.Tuple, ast.List)):
                        for k_, e_ in enumerate(t_.elts):
                            if isinstance(e_, ast.Name) and e_.id in cat_names:
                                v_ = s_.value.elts[k_] if isinstance(s_.value, (ast.Tuple, ast.List)) and len(s_.value.elts) == len(t_.elts) else s_.value
                                assigns.append((s_, v_))
        rep.need(assigns, f"association.Association.{fname}: the response category is never assigned")
        for a, v in assigns:
            n_scu += 1
            ok = isinstance(v, ast.Call) and dotted(v.func) == "code_to_category" and v.args and "status.Status" in norm(v.args[0])
            rep.check(bool(ok), "finality-source", f"association.Association.{fname}", a, "the SCU's response category must be code_to_category(status.Status), which classifies all 65536 codes: a lookup in a status table (with a default, or failing) knows only the listed codes - a Pending code outside the table (0xFF01) is then taken for a final response, a Failure / Warning outside it loses its category and its Failed SOP Instance UID List", mod=assoc, node=a)
        tests = pend_tests
        pend = [t for t in tests if "STATUS_PENDING" in norm(t)]
        rep.check(len(pend) >= 1, "finality-source", f"association.Association.{fname}", "category == STATUS_PENDING", "no Pending test on the response category", mod=assoc, node=f)
    sc = repo.mod("service_class")
    n_scp = 0
    for m in (sc, repo.mod("service_class_n")):
        for node in ast.walk(m.tree):
            if isinstance(node, ast.Compare) and isinstance(node.left, ast.Subscript) and norm(node.left) == "status[0]":
                f = enclosing(node, (ast.FunctionDef,))
                assigns = [s for s in walk_no_nested(f) if isinstance(s, ast.Assign) and norm(s.targets[0]) == "status"]
                good = [a for a in assigns if norm(a.value) == "self.statuses[rsp.Status]"]
                other = [a for a in assigns if a not in good]
                n_scp += 1
                ok = bool(good) and all(
                    isinstance(o.value, ast.Tuple) and isinstance(o.value.elts[0], ast.Name) and o.value.elts[0].id.startswith("STATUS_") for o in other
                )
                rep.check(ok, "finality-source", f"{m.name.replace('pynetdicom.', '')}.{qualname(f)}", node, "SCP status category must come from self.statuses[rsp.Status]", mod=m, node=node)
    rep.floor("SCU category sources", n_scu, 2)
    rep.floor("SCP status[0] tests", n_scp, 20)
    # every `statuses` class attribute names one of the verified tables
    n_cls = 0
    for m in (sc, repo.mod("service_class_n")):
        for node in ast.walk(m.tree):
            tgt = None
            if isinstance(node, ast.Assign) and len(node.targets) == 1:
                tgt = node.targets[0]
            if tgt is None:
                continue
            if (isinstance(tgt, ast.Name) and tgt.id == "statuses") or (isinstance(tgt, ast.Attribute) and tgt.attr == "statuses"):
                n_cls += 1
                v = node.value
                ok = isinstance(v, ast.Name) and v.id in tables
                rep.check(ok, "finality-source", f"{m.name.replace('pynetdicom.', '')}.{qualname(node)}", node, "service class status table is not one of the verified tables of status.py", mod=m, node=node)
    rep.floor("statuses bindings", n_cls, 20)
    # the tables are constants: nothing adds to, removes from or rewrites them at run time (a lookup written with
    # setdefault() inserts the default - from then on the table and code_to_category() disagree for that code, for
    # every service class sharing the dict)
    from .c27 import pkg_modules
    n_mut = 0
    for short, m in pkg_modules(repo):
        for fn_ in [x for x in ast.walk(m.tree) if isinstance(x, (ast.FunctionDef, ast.Lambda))]:
            for x in ast.walk(fn_):
                tgt = None
                if isinstance(x, ast.Call) and isinstance(x.func, ast.Attribute) and x.func.attr in ("setdefault", "update", "pop", "popitem", "clear", "__setitem__", "__delitem__"):
                    tgt = x.func.value
                elif isinstance(x, ast.Subscript) and isinstance(x.ctx, (ast.Store, ast.Del)):
                    tgt = x.value
                if tgt is None:
                    continue
                names_ = {norm(tgt)}
                if isinstance(tgt, ast.Name):
                    # a local alias of a table: `statuses = service_class.statuses`
                    for a_ in ast.walk(fn_):
                        if isinstance(a_, ast.Assign) and any(norm(t_) == tgt.id for t_ in a_.targets):
                            names_.add(norm(a_.value))
                if any(nm.split(".")[-1] == "statuses" or nm in tables or nm.split(".")[-1] in tables for nm in names_):
                    n_mut += 1
                    rep.fail("table-agreement", f"{short}.{qualname(x) or getattr(fn_, 'name', 'lambda')}", enclosing(x, (ast.stmt,)) or x, f"`{norm(x)[:60]}` changes a status table at run time: the tables are shared module-level dicts (several service classes point at the same object), so from the first such call on the table disagrees with code_to_category() / PS3.7 for that code in the whole process (is_valid_status() flips, an unknown status gets a category)", mod=m, node=x)
    rep.counters["run-time writes to status tables"] = n_mut
    _delegate_finality(repo, rep, tier)
    _delegate_scp_finality(repo, rep, tier)
    check_category_tests_complete(repo, rep, smap, sp)


def _delegate_finality(repo, rep, tier):
    """'The SCU ... decisions about whether a response is final follow that category': C24's
    stop-at-final rule decides that the SCU loops wait for another response only after a response
    proven Pending (plus the one documented exception, Repository Query 0xB001); its failures are
    failures of this property."""
    from . import c24

    rep.rule("scu-finality", "the SCU response loops continue only after a Pending category (C24 stop-at-final)")
    sub = Report("C24", tier, c24.LEVEL, "")
    c24.run(repo, sub, tier)
    n = sum(1 for o in sub.obligations if o["rule"] == "stop-at-final" and o["ok"])
    rep.ok("scu-finality", f"{n} stop-at-final obligations (C24) hold", "")
    for f in sub.failures:
        if f["rule"] == "stop-at-final":
            f2 = dict(f)
            f2["rule"] = "scu-finality"
            f2["detail"] = f["detail"] + " - the decision that a response is not final no longer follows its status category"
            rep.obligations.append(f2)
            rep.failures.append(f2)


def _delegate_scp_finality(repo, rep, tier):
    """'... and SCP decisions about whether a response is final follow that category': C20's typestate
    decides, per SCP, that a response of a non-Pending category closes the request (nothing is sent
    after it) and that every path ends with such a response; its failures are failures of this
    property when the category of the response decides the branch."""
    from ..delegate import delegate

    rep.rule("scp-finality", "in every SCP a response whose category is not Pending is the last one for its request, and every request gets one (C20's after-final / no-final rules)")
    rep.rule("category-use", "a sub-operation's result is tallied by the category its status has in the storage table (C22's classification rule)")
    delegate(repo, rep, tier, "C22", ("classification",), "category-use", "the Get / Move SCP files a status under a counter that does not match its category (a Cancel or Pending answer counted as completed): the final response then reports Success for a retrieval that did not complete")
    delegate(repo, rep, tier, "C21", ("n-reply",), "category-use", "a DIMSE-N SCP decides by something other than the category of the status whether the (single, final) response carries the handler's data set: only Success and Warning responses have one - a Cancel / Pending / Failure / unknown status with a data set attached, or a Warning without, contradicts the table the requestor's SCU reads the response by")
    delegate(repo, rep, tier, "C20", ("after-final", "no-final"), "scp-finality", "the SCP's decision that a response is (not) final does not follow the category of its status: a Warning / Failure / Cancel / Success status is followed by another response, or a request is left without a final one")


def check_docs_agreement(repo, rep, tables: dict) -> None:
    """The status tables are what the service classes look a peer's status up in; the documentation of each
    service class lists the same codes for users. For every documentation file that names its table directly
    (docs/service_classes/<stem>.rst <-> <STEM>_STATUS) each documented single code must be a key of that
    table with the documented category: a mistyped key (0xB060 for 0xB006) leaves the documented code
    unknown to the service class, which then treats a Warning the peer sent as a failure."""
    import re

    from ..loader import repo_root

    rep.rule("docs-agreement", "every status code a service class's documentation lists is a key of that service class's table, with the documented category")
    st = repo.mod("status")
    d = repo_root() / "docs" / "service_classes"
    if not d.is_dir():
        rep.defer("docs/service_classes not found: the documentation oracle for the status tables is unavailable")
        return
    n_files = n_rows = n_ranges = 0
    cat_word = {"success": "STATUS_SUCCESS", "warning": "STATUS_WARNING", "failure": "STATUS_FAILURE", "cancel": "STATUS_CANCEL", "pending": "STATUS_PENDING"}
    for f in sorted(d.glob("*.rst")):
        name = f.stem.upper() + "_STATUS"
        tb = tables.get(name)
        if not isinstance(tb, dict):
            continue
        n_files += 1
        for code, cat in re.findall(r"^\|\s*(0x[0-9A-Fa-f]{4})\s*\|\s*(\w+)", f.read_text(encoding="utf-8"), re.M):
            want = cat_word.get(cat.lower())
            if want is None:
                continue
            c = int(code, 16)
            if 0xC000 <= c <= 0xCFFF and c not in tb:
                # the documentation also lists the implementation's own failure codes (handler raised, reply not
                # encodable ...), which the SCP sets itself from the 0xCxxx 'unable to process' range: C21's concern
                continue
            n_rows += 1
            ent = tb.get(c)
            got = None if ent is None else str(ent[0] if isinstance(ent, (tuple, list)) else ent)
            ok = ent is not None and got.lower() in (cat.lower(), want.lower())
            rep.check(ok, "docs-agreement", f"status.{name}", f"{code} documented as {cat} in {f.name}: table has {ent if ent is None else got}", f"{f.name} documents status {code} ({cat}) for this service class but {name} {'has no entry for it' if ent is None else 'files it under ' + str(got)}: a peer's {code} is then not recognised as {cat} by the service class that uses the table", mod=st, node=st.assign_stmts[name][0] if name in st.assign_stmts else st.tree)
        # documented ranges ("0xC000 to 0xCFFF | Failure"): every code of the range, both ends included, is a key
        for lo_, hi_, cat in re.findall(r"^\|\s*(0x[0-9A-Fa-f]{4})\s+to\s+(0x[0-9A-Fa-f]{4})\s*\|\s*(\w+)", f.read_text(encoding="utf-8"), re.M):
            want = cat_word.get(cat.lower())
            if want is None:
                continue
            lo_i, hi_i = int(lo_, 16), int(hi_, 16)
            if not any(c in tb for c in range(lo_i, hi_i + 1)):
                continue  # the table does not spell this range out at all (looked up by category): nothing to compare
            n_ranges += 1
            missing = [c for c in range(lo_i, hi_i + 1) if c not in tb]
            wrong = [c for c in range(lo_i, hi_i + 1) if c in tb and str(tb[c][0] if isinstance(tb[c], (tuple, list)) else tb[c]).lower() not in (cat.lower(), want.lower())]
            rep.check(not missing and not wrong, "docs-agreement", f"status.{name}", f"{lo_} to {hi_} documented as {cat} in {f.name}: {len(missing)} codes missing, {len(wrong)} with another category", f"{f.name} documents the whole range {lo_}..{hi_} ({cat}) for this service class but {name} lacks {[hex(c) for c in missing[:4]]}{' ...' if len(missing) > 4 else ''}{' / has another category for ' + str([hex(c) for c in wrong[:4]]) if wrong else ''}: a handler or peer using that code is treated as 'unknown status' (an off-by-one at the end of a range drops exactly the last code)", mod=st, node=st.assign_stmts.get(name, [st.tree])[0])
    rep.counters["documented status ranges compared"] = n_ranges
    rep.floor("documentation files matched to a status table", n_files, 6)
    rep.floor("documented status rows compared", n_rows, 40)



def check_category_tests_complete(repo, rep, smap: dict, sp: dict) -> None:
    """Code that decides by *value* whether a response is Pending (the applications' `status.Status in [0xFF00,
    0xFF01]`) restates a category. The categories with a handful of members - Pending {0xFF00, 0xFF01}, Cancel,
    Success - can be compared exactly: a test whose constants all lie in one such category must name all of
    its members, otherwise a response of that category (a Pending 0xFF01 'optional keys not supported' match)
    is treated as something else. Tests on single codes of the big categories (0xB001, 0x0000 ...) are by value on
    purpose and are not touched."""
    from .c27 import pkg_modules

    rep.rule("category-test-complete", "a test of rsp.Status against constants that all belong to Pending (or another small category) names every code of that category")
    members: dict[str, set] = {}
    for code, cat in smap.items():
        members.setdefault(cat, set()).add(code)
    small = {cat: m for cat, m in members.items() if 2 <= len(m) <= 4}
    rep.need("Pending" in small, "the PS3.7 Pending category is no longer a small explicit set in the specification table")
    st = repo.mod("status")
    enum_vals = {}
    ci = st.classes.get("Status")
    if ci is not None:
        for a in ci.node.body:
            if isinstance(a, ast.Assign) and isinstance(a.targets[0], ast.Name) and isinstance(a.value, ast.Constant) and isinstance(a.value.value, int):
                enum_vals[a.targets[0].id] = a.value.value

    def const(e):
        if isinstance(e, ast.Constant) and isinstance(e.value, int) and not isinstance(e.value, bool):
            return e.value
        if isinstance(e, ast.Attribute) and norm(e.value).split(".")[-1] == "Status" and e.attr in enum_vals:
            return enum_vals[e.attr]
        return None

    n = 0
    for mname, m in sorted(repo.modules.items()):
        short = mname.replace("pynetdicom.", "")
        if short.startswith(("tests.", "benchmarks.")) or ".tests." in short:
            continue
        for x in ast.walk(m.tree):
            if not (isinstance(x, ast.Compare) and len(x.ops) == 1 and isinstance(x.left, ast.Attribute) and x.left.attr == "Status"):
                continue
            op, right = x.ops[0], x.comparators[0]
            if isinstance(op, (ast.Eq, ast.NotEq)):
                vals = [const(right)]
            elif isinstance(op, (ast.In, ast.NotIn)) and isinstance(right, (ast.List, ast.Tuple, ast.Set)):
                vals = [const(e) for e in right.elts]
            else:
                continue
            if not vals or any(v is None for v in vals):
                continue
            cats = {smap.get(v, sp["default"]) for v in vals}
            if len(cats) != 1 or next(iter(cats)) not in small:
                continue
            cat = next(iter(cats))
            n += 1
            missing = sorted(small[cat] - set(vals))
            rep.check(not missing, "category-test-complete", f"{short}.{qualname(x)}", enclosing(x, (ast.stmt,)) or x, f"`{norm(x)}` decides whether a response is {cat} by value but leaves out {[hex(v) for v in missing]}, which is {cat} too (PS3.7 Annex C, code_to_category): such a response is handled as if it were not {cat} - e.g. a C-FIND match answered with 0xFF01 is not treated as a match", mod=m, node=x)
    rep.counters["tests of a status against the members of a small category"] = n
    if not n:
        rep.ok("category-test-complete", "pynetdicom :: no test of a status against the members of a small category", "nothing decides Pending by value")
