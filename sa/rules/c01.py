"""C01 - every PDU value survives encode/decode and matches the PS3.8 byte layout."""

from __future__ import annotations

import ast
import json

from ..consteval import Evaluator, Unknown
from ..lin import Lin
from ..loader import AnalysisError, Repo, body_nodoc, dotted, norm, walk_no_nested, strip_cast
from ..pdu_model import PduModel
from ..report import Report, VERIF

LEVEL = "other"
EXPLANATION = (
    "The codec is table driven, so it is decided by reading the tables. For each of the 7 PDU and "
    "16 item classes: (layout) the `_encoders` list is evaluated statically into a field sequence "
    "(kind, width, byte order, reserved value, attribute) and compared position by position with a "
    "hand transcription of PS3.8 Tables 9-11..9-26 / PS3.7 Annex D; (length) `pdu_length` / "
    "`item_length` and every sub-length property are summarised symbolically (affine in len(field), "
    "sum over items, per-item constants) on every path and compared with the sum of the widths of "
    "what follows the length field; (reader/writer) `_decoders` offsets - including the generator "
    "form whose offsets depend on previously decoded lengths - are compared with the encoder's "
    "cumulative offsets, widths, unpackers and coverage; (tables) type-code dispatch tables agree "
    "with the spec and with each other; (primitives) from_primitive/to_primitive move the same "
    "parameter set in both directions. Independent of field values; value-level string handling "
    "(set_ae/set_uid/decode_bytes) is not decided."
    ' Second session: a lossy hand-over (_wrap_uid_bytes strips a trailing NUL) is accepted only for fields whose setter goes through set_uid; no value-level default (`x or y`, if-else expression) or guard other than item-kind dispatch / `is None` may stand between a primitive parameter and its PDU field; every item loop of the codec hands on each item it frames.'
    ' Fourth session: the item generators are evaluated on byte strings of 0..3 items built from the PS3.8 layouts (every item comes out once, in order); no member of a PDU / item / primitive class may be memoised.'
    ' Fifth round: (wire-unsigned) every struct format of the PDU codec is unsigned; (zero-legal) the optional fields PS3.8 allows to be empty (service-class application information, implementation version, extended-negotiation payloads) are not rejected or dropped for length 0; the item generators are also evaluated on malformed streams, which must raise; no decoded member is memoised on the PDU object (derived-live).'
)


def spec():
    return json.loads((VERIF / "spec" / "ps3_8_pdu_layout.json").read_text())


def code_layout(pm: PduModel, ci):
    """-> (normalised field list like the spec's, rows, index of the length field)"""
    rows = pm.encoder_rows(ci)
    out = []
    for r in rows:
        if r.kind == "pack" and r.attr in ("pdu_type", "item_type"):
            out.append(["type"])
        elif r.kind == "reserved":
            if out and out[-1][0] == "reserved" and out[-1][2] == r.value:
                out[-1][1] += r.width
                out[-1][3].append(r)
            else:
                out.append(["reserved", r.width, r.value, [r]])
        elif r.kind == "pack" and r.attr in ("pdu_length", "item_length"):
            out.append(["length", r.width])
        elif r.kind == "pack":
            lenof = None
            o, f = pm.repo.lookup_method(ci, r.attr, "getter")
            if f is not None and r.attr.endswith("_length"):
                res = pm.prop_lin(ci, r.attr)
                tg = {a[1] for _, l in res for a in l if isinstance(a, tuple)}
                if len(tg) == 1:
                    lenof = tg.pop()
            if lenof is not None:
                out.append(["lenof", r.width, lenof, r.attr])
            else:
                out.append(["fixed", r.width, r.attr])
        elif r.kind == "str" and r.pad:
            out.append(["str", r.pad, r.attr])
        elif r.kind in ("str", "bytes"):
            out.append(["var", r.attr])
        elif r.kind == "items":
            out.append(["items", r.attr])
        elif r.kind == "list":
            out.append(["uidlist", r.attr])
    return out, rows


def expected_len(fields) -> Lin:
    """sum of what follows the length field"""
    e = Lin()
    after = False
    for f in fields:
        if f[0] == "length":
            after = True
            continue
        if not after:
            continue
        k = f[0]
        if k in ("reserved", "fixed", "lenof", "str"):
            e = e.add(Lin.const(f[1]))
        elif k == "var":
            e = e.add(Lin.atom(("len", f[1])))
        elif k == "items":
            e = e.add(Lin.atom(("sum", f[1])))
        elif k == "uidlist":
            e = e.add(Lin.atom(("sum", f[1]))).add(Lin.atom(("count", f[1])), 2)
    return e


def run(repo: Repo, rep: Report, tier: str) -> None:
    sp = spec()
    pm = PduModel(repo)
    from ..lints import decoder_loops_complete
    rep.rule("decoder-complete", "every item loop of the codec hands on each item it frames")
    rep.floor("codec item loops", decoder_loops_complete(repo, rep, "decoder-complete", None), 6)
    from ..lints import item_generators_exhaustive, no_memoised_state
    rep.floor("item generators evaluated", item_generators_exhaustive(repo, rep, "decoder-complete"), 4)
    rep.rule("wire-unsigned", "every struct format of the codec reads and writes unsigned big-endian integers (PS3.8: all lengths and codes are unsigned)")
    import re as _re
    n_fmt = 0
    for m_ in pm.mods:
        for name_, vals_ in m_.assigns.items():
            v_ = vals_[0]
            if isinstance(v_, ast.Call) and (dotted(v_.func) in ("Struct", "struct.Struct")) and v_.args and isinstance(v_.args[0], ast.Constant) and isinstance(v_.args[0].value, str):
                n_fmt += 1
                fmt_ = v_.args[0].value
                signed = sorted(set(_re.findall(r"[bhilqnfde]", fmt_)))
                little = fmt_[:1] in ("<",) or (fmt_[:1] not in (">", "!") and _re.search(r"[HILQhilq]", fmt_) is not None)
                rep.check(not signed and not little, "wire-unsigned", f"{m_.name.replace('pynetdicom.', '')}.{name_}", f"Struct({fmt_!r})", f"the format {fmt_!r} {'reads ' + '/'.join(signed) + ' as signed' if signed else 'is not big-endian'}: a length or code with its top bit set (an item of 32768 bytes or more - a large user-identity field - for a 2-byte length) decodes to a negative number, the item is mis-framed and a well-formed PDU fails to decode; encoding is unaffected, so the round trip breaks", mod=m_, node=v_)
    rep.floor("struct formats in the codec", n_fmt, 3)
    rep.rule("derived-live", "no member of a PDU / item / primitive class is memoised: the lookups over variable_items are recomputed from the fields decode() / from_primitive() assign")
    rep.floor("codec members examined for memoisation", no_memoised_state(repo, rep, "derived-live", ("pdu", "pdu_items", "pdu_primitives"), "a PDU object read once before decode() / from_primitive() fills it (or decoded into twice) keeps answering with the first value - to_primitive() hands on a stale or missing Application Context Name, presentation contexts or user information although the encoded bytes are right, so the primitive -> PDU -> bytes -> primitive round trip loses parameters"), 100)
    rep.rule("layout", "field sequence of _encoders == PS3.8/PS3.7 table (kind, width, reserved value, attribute order, big-endian)")
    rep.rule("length", "pdu_length / item_length / sub-length properties == sum of the widths of what follows, on every path")
    rep.rule("header", "__len__ adds exactly the bytes up to and including the length field")
    rep.rule("decoder", "each decoded attribute's offset/width/unpacker equals the encoder's; every encoded attribute is decoded")
    rep.rule("type-tables", "PDU_TYPES / PDU_ITEM_TYPES / type properties carry the PS3.8 type codes")
    rep.rule("wrappers", "the helper encoders do what the layout model assumes (identity, pack, ascii + pad, concatenation)")
    rep.rule("primitive-pairs", "from_primitive and to_primitive move the same parameters, mirrored")
    rep.need(set(pm.classes) == set(sp["classes"]), f"codec classes differ from the 23 of the spec: {sorted(set(pm.classes) ^ set(sp['classes']))}")
    rep.floor("codec classes", len(pm.classes), 23)

    # a length field is a function of the *current* field values: a length property that reads the private
    # variable the decoder stored the received length in keeps announcing the length of a value that has
    # since been replaced (decode -> modify / from_primitive -> encode)
    for name in sp["classes"]:
        ci = pm.classes[name]
        try:
            priv = {r[2] for r in pm.decoder_rows(ci) if isinstance(r[2], str) and r[2].startswith("_")}
        except AnalysisError:
            priv = set()
        if not priv:
            continue
        for pname, g in ci.getters.items():
            if not pname.endswith("_length"):
                continue
            for x in walk_no_nested(g):
                if isinstance(x, ast.Attribute) and isinstance(x.ctx, ast.Load) and norm(x.value) == "self" and x.attr in priv:
                    rep.fail("length", f"{ci.mod.name.replace('pynetdicom.', '')}.{name}.{pname}", f"reads self.{x.attr}", f"the length property returns / tests self.{x.attr}, the length the decoder received, instead of measuring the current value: after a decoded item is modified (or re-filled by from_primitive) the length field no longer equals the length of what follows it, and the parent lengths are wrong with it", mod=ci.mod, node=x)
                    break

    for name, cs in sp["classes"].items():
        ci = pm.classes[name]
        mod = ci.mod
        fq = f"{mod.name.replace('pynetdicom.', '')}.{name}"
        rep.saw("codec classes", fq)
        got, rows = code_layout(pm, ci)
        want = [list(f) for f in cs["fields"]]
        enc_node = ci.getters["_encoders"]
        # ---- layout ---------------------------------------------------------
        g_cmp = [[x for x in f[:3] if not isinstance(x, list)] for f in got]
        w_cmp = [[x for x in f if x not in ("n", "0..1")] for f in want]
        # lenof: spec gives ['lenof', w, target]; code gives ['lenof', w, target, attr]
        g_cmp = [f[:3] for f in g_cmp]
        if g_cmp == w_cmp:
            rep.ok("layout", fq, " | ".join(" ".join(str(x) for x in f) for f in g_cmp))
        else:
            names_g = [f[-1] for f in g_cmp if f[0] in ("fixed", "str", "var", "items", "uidlist")]
            names_w = [f[-1] for f in w_cmp if f[0] in ("fixed", "str", "var", "items", "uidlist")]
            if sorted(names_g) != sorted(names_w) and len(names_g) == len(names_w):
                raise AnalysisError(f"{fq}._encoders: attribute set {sorted(set(names_g) ^ set(names_w))} not in the spec (renamed field?)")
            i = next((k for k in range(min(len(g_cmp), len(w_cmp))) if g_cmp[k] != w_cmp[k]), min(len(g_cmp), len(w_cmp)))
            gi = g_cmp[i] if i < len(g_cmp) else None
            wi = w_cmp[i] if i < len(w_cmp) else None
            rep.fail("layout", fq, f"field {i}: {gi}", f"PS3.8 layout of {name} has {wi} at position {i}, the encoder table has {gi}", mod=mod, node=enc_node)
        for r in rows:
            if r.kind in ("pack", "reserved") and r.width > 1 and r.endian != ">":
                rep.fail("layout", fq, f"{r.attr or 'reserved'}: byte order {r.endian}", "multi-byte fields are big-endian (PS3.8 9.3.1)", mod=mod, node=r.node)
        rep.sample({"class": name, "layout": [" ".join(str(x) for x in f) for f in g_cmp]}) if name in ("SCP_SCU_RoleSelectionSubItem", "A_ASSOCIATE_RJ") else None

        # ---- type code -----------------------------------------------------------
        # ---- length ------------------------------------------------------------------
        lprop = "pdu_length" if any(r.attr == "pdu_length" for r in rows) else "item_length"
        E = expected_len(got)
        mult = {f[1]: (f[2] if len(f) > 2 else "n") for f in want if f[0] == "items"}
        for assume, L in pm.prop_lin(ci, lprop):
            falsy = {a for a, t in assume if not t}
            zero = lambda atom: isinstance(atom, tuple) and atom[1] in falsy  # noqa: E731
            L2 = L.subst_zero(zero)
            E2 = E.subst_zero(zero)
            firsts = [a for a in L2 if isinstance(a, tuple) and a[0] == "first"]
            note = ""
            for a in firsts:
                if mult.get(a[1]) == "0..1":
                    L2 = L2.subst({a: Lin.atom(("sum", a[1]))})
                    note = f" (first element only: equal to the sum under the spec's 0..1 multiplicity of {a[1]})"
            inst = f"{fq}.{lprop}" + (f" when {sorted(assume)}" if assume else "")
            if L2 == E2:
                rep.ok("length", inst, f"{L.show()} == {E.show()}{note}")
            else:
                rep.fail("length", f"{fq}.{lprop}", f"{L.show()} [{sorted(assume)}]", f"length field would be {L.show()} but {E.show()} bytes follow it", mod=mod, node=pm.repo.lookup_method(ci, lprop, "getter")[1])
        if "length_value" in cs:
            res = pm.prop_lin(ci, lprop)
            ok = all(l == Lin.const(cs["length_value"]) for _, l in res)
            rep.check(ok, "length", f"{fq}.{lprop}", f"constant {cs['length_value']}", f"PS3.8 fixes this length at {cs['length_value']}", mod=mod, node=pm.repo.lookup_method(ci, lprop, "getter")[1])
        # sub-length properties
        for f in got:
            if f[0] == "lenof":
                tgt, prop = f[2], f[3]
                for assume, L in pm.prop_lin(ci, prop):
                    falsy = {a for a, t in assume if not t}
                    if ["uidlist", tgt] in [x[:2] for x in got]:
                        want_l = Lin.atom(("sum", tgt)).add(Lin.atom(("count", tgt)), 2)
                    else:
                        want_l = Lin.atom(("len", tgt))
                    zero = lambda atom: isinstance(atom, tuple) and atom[1] in falsy  # noqa: E731
                    rep.check(L.subst_zero(zero) == want_l.subst_zero(zero), "length", f"{fq}.{prop}", f"{L.show()} [{sorted(assume)}]", f"sub-length field must equal the encoded size of {tgt}", mod=mod, node=pm.repo.lookup_method(ci, prop, "getter")[1])
                # lenof must immediately precede its target
                k = got.index(f)
                nxt = got[k + 1] if k + 1 < len(got) else None
                rep.check(nxt is not None and nxt[0] in ("var", "uidlist") and nxt[1] == tgt, "layout", fq, f"{prop} precedes {nxt}", f"the length of {tgt} must immediately precede it", mod=mod, node=enc_node)
        # ---- header ----------------------------------------------------------------------
        hdr = 0
        for f in got:
            hdr += 1 if f[0] == "type" else f[1]
            if f[0] == "length":
                break
        hl = pm.header_len(ci)
        rep.check(hl == hdr, "header", fq, f"__len__ adds {hl}, header is {hdr} bytes", "len(pdu/item) must be header + length field value, it is what the parent's length sums", mod=mod, node=enc_node)
        # ---- decoders ------------------------------------------------------------------------
        check_decoders(pm, rep, ci, fq, got, rows, cs.get("const_fields"))

    check_tables(repo, rep, pm, sp)
    check_wrappers(repo, rep, pm)
    from .c01_prims import check_primitive_pairs, check_fresh_per_iteration, check_variant_selection
    check_primitive_pairs(repo, rep, pm)
    check_fresh_per_iteration(repo, rep)
    check_variant_selection(repo, rep)
    from .c01_prims import check_numeric_ranges
    check_numeric_ranges(repo, rep)
    # ---- absent is None, not falsy ---------------------------------------------------------
    from ..lints import zero_legal_truthiness
    rep.rule("none-not-falsy", "PDU / primitive parameters whose falsy value is legal (b'' response, 0 codes, 0 = unlimited, False role) are tested with `is None`")
    # in the primitives (where 'absent' decides which item is built): an empty application-information field is a
    # legal value, as are the zero window sizes of asynchronous operations
    zero_legal_truthiness(repo, rep, "none-not-falsy", {"service_class_application_information", "maximum_number_operations_invoked", "maximum_number_operations_performed"}, modules=("pdu_primitives",))
    n_t = zero_legal_truthiness(repo, rep, "none-not-falsy", {"server_response", "primary_field", "secondary_field", "maximum_length", "maximum_length_received", "result", "source", "reason", "diagnostic", "result_source", "abort_source", "provider_reason", "scu_role", "scp_role"}, modules=("pdu", "pdu_items", "pdu_primitives"))
    rep.floor("truthiness tests on zero-legal PDU fields (all allow-listed)", n_t, 5)


def enc_offsets(got, rows):
    """attr -> (offset Lin, field) using cumulative encoder widths"""
    off = Lin()
    table = {}
    for f in got:
        k = f[0]
        if k == "type":
            w = Lin.const(1)
            key = "@type"
        elif k == "reserved":
            w, key = Lin.const(f[1]), None
        elif k == "length":
            w, key = Lin.const(f[1]), "@length"
        elif k == "lenof":
            w, key = Lin.const(f[1]), ("lenof", f[2])
        elif k in ("fixed", "str"):
            w, key = Lin.const(f[1]), f[2]
        elif k == "var":
            w, key = Lin.atom(("len", f[1])), f[1]
        elif k == "items":
            w, key = Lin.atom(("sum", f[1])), f[1]
        elif k == "uidlist":
            w, key = Lin.atom(("sum", f[1])).add(Lin.atom(("count", f[1])), 2), f[1]
        if key is not None:
            table[key] = (off, f)
        off = off.add(w)
    return table


def check_decoders(pm, rep, ci, fq, got, rows, const_fields=None):
    const_fields = const_fields or {}
    mod = ci.mod
    dec = pm.decoder_rows(ci)
    table = enc_offsets(got, rows)
    priv = {}
    decoded = set()
    dnode = ci.getters["_decoders"]
    last_key = [f for f in got if f[0] in ("fixed", "str", "var", "items", "uidlist")]
    last_named = (last_key[-1][2] if last_key[-1][0] in ("fixed", "str") else last_key[-1][1]) if last_key else None
    last_attr = last_key[-1][-1] if last_key and last_key[-1][0] != "fixed" and last_key[-1][0] != "str" else (last_key[-1][2] if last_key else None)
    if last_key and last_key[-1][0] in ("var", "items", "uidlist"):
        last_attr = last_key[-1][1]
    for off, length, attr, func, args, node in dec:
        off2 = off.subst({a: priv[a[1]] for a in off if isinstance(a, tuple) and a[0] == "priv" and a[1] in priv})
        unresolved = [a for a in off2 if isinstance(a, tuple) and a[0] == "priv"]
        rep.need(not unresolved, f"{fq}._decoders: offset uses {unresolved} before it is decoded")
        if attr in table:
            eoff, f = table[attr]
            decoded.add(attr)
            ok_off = off2 == eoff
            rep.check(ok_off, "decoder", fq, f"{attr} @ {off.show()}", f"decoder reads {attr} at offset {off2.show()}, encoder writes it at {eoff.show()}", mod=mod, node=node)
            k = f[0]
            if k in ("fixed", "str"):
                w = f[1]
                to_end_ok = length is None and attr == last_named
                rep.check(length == w or to_end_ok, "decoder", fq, f"{attr} width {length}", f"decoder reads {length} bytes, the field is {w} bytes wide", mod=mod, node=node)
                if k == "fixed":
                    ok_f = func == "self._wrap_unpack" and args and pm.packer(ci, args[0])[0] == "unpack" and pm.packer(ci, args[0])[1] == w and (w == 1 or pm.packer(ci, args[0])[2] == ">")
                    rep.check(bool(ok_f), "decoder", fq, f"{attr} via {func}{args}", f"a {w}-byte integer must be unpacked with the matching big-endian struct", mod=mod, node=node)
                else:
                    rep.check(func == "self._wrap_bytes", "decoder", fq, f"{attr} via {func}", "padded string field is handed over as bytes", mod=mod, node=node)
            elif k == "var":
                if length is None:
                    rep.check(attr == last_attr, "decoder", fq, f"{attr} to end of item", "only the last field may be read to the end of the item", mod=mod, node=node)
                else:
                    l2 = length if isinstance(length, Lin) else Lin.const(length)
                    l2 = l2.subst({a: priv[a[1]] for a in l2 if isinstance(a, tuple) and a[0] == "priv" and a[1] in priv})
                    rep.check(l2 == Lin.atom(("len", attr)), "decoder", fq, f"{attr} length {l2.show()}", f"decoder must read exactly the announced length of {attr}", mod=mod, node=node)
                rep.check(func in ("self._wrap_bytes", "self._wrap_uid_bytes"), "decoder", fq, f"{attr} via {func}", "variable field is handed over as bytes", mod=mod, node=node)
                if func == "self._wrap_uid_bytes":
                    # the only lossy hand-over (drops one trailing NUL): lossless exactly for UID-valued fields,
                    # whose legal values never end in NUL - i.e. attributes whose setter goes through set_uid
                    st = pm.repo.lookup_method(ci, attr, "setter")
                    is_uid = st[1] is not None and any(isinstance(c, ast.Call) and (dotted(c.func) or "").split(".")[-1] == "set_uid" for c in ast.walk(st[1]))
                    rep.check(is_uid, "decoder", fq, f"{attr} via {func}", f"_wrap_uid_bytes strips a trailing 0x00; {attr} is not a UID (its setter does not use set_uid), so a legal value ending in 0x00 decodes one byte short: decode(encode(x)) != x", mod=mod, node=node)
            elif k == "items":
                rep.check(length is None and func == "self._wrap_generate_items", "decoder", fq, f"{attr} via {func}", "item list is parsed to the end of the PDU/item", mod=mod, node=node)
            elif k == "uidlist":
                rep.check(length is None and func == "self._generate_items", "decoder", fq, f"{attr} via {func}", "UID list is parsed to the end of the item", mod=mod, node=node)
        else:
            # private length variable: must sit on an encoder lenof field
            hit = [(key, v) for key, v in table.items() if isinstance(key, tuple) and key[0] == "lenof" and v[0] == off2]
            if not hit:
                raise AnalysisError(f"{fq}._decoders: {attr} at {off2.show()} matches no encoder field")
            key, (eoff, f) = hit[0]
            rep.check(length == f[1] and func == "self._wrap_unpack", "decoder", fq, f"{attr} width {length}", f"length of {key[1]} is a {f[1]}-byte integer", mod=mod, node=node)
            tgt = key[1]
            if ["uidlist", tgt] in [x[:2] for x in got]:
                priv[attr] = Lin.atom(("sum", tgt)).add(Lin.atom(("count", tgt)), 2)
            else:
                priv[attr] = Lin.atom(("len", tgt))
    named = [f[2] if f[0] in ("fixed", "str") else f[1] for f in got if f[0] in ("fixed", "str", "var", "items", "uidlist")]
    for a in named:
        if a in const_fields and a not in decoded:
            init = ci.methods.get("__init__")
            dflt = [st.value.value for st in walk_no_nested(init) if isinstance(st, (ast.Assign, ast.AnnAssign)) and norm(st.targets[0] if isinstance(st, ast.Assign) else st.target) == f"self.{a}" and isinstance(st.value, ast.Constant)] if init else []
            rep.check(dflt == [const_fields[a]], "decoder", fq, f"{a} fixed at {const_fields[a]} by the standard, default {dflt}", f"{a} is not decoded, so a decoded item only equals the sent one if the constructor default is the mandated constant {const_fields[a]}", mod=mod, node=dnode)
            continue
        rep.check(a in decoded, "decoder", fq, f"{a} decoded", f"{a} is written by the encoder but never read back by the decoder: a decoded PDU would not equal the sent one", mod=mod, node=dnode)


def check_tables(repo, rep, pm, sp):
    pdu = repo.mod("pdu")
    items = repo.mod("pdu_items")
    ev = Evaluator(repo, pdu, True)
    pt = ev.name("PDU_TYPES")
    rep.need(isinstance(pt, dict), "pdu.PDU_TYPES not a dict literal")
    got = {getattr(k, "name", "?").split(".")[-1]: v for k, v in pt.items()}
    want = {n: c["type"] for n, c in sp["classes"].items() if c["type"] is not None and c["type"] <= 7}
    rep.check(got == want, "type-tables", "pdu.PDU_TYPES", f"{sorted(got.items(), key=lambda x: x[1])}", f"PDU type codes must be {want}", mod=pdu, node=pdu.assign_stmts["PDU_TYPES"][0])
    evi = Evaluator(repo, items, True)
    it = evi.name("PDU_ITEM_TYPES")
    rep.need(isinstance(it, dict), "pdu_items.PDU_ITEM_TYPES not a dict literal")
    goti = {getattr(v, "name", "?").split(".")[-1]: k for k, v in it.items()}
    wanti = {n: c["type"] for n, c in sp["classes"].items() if c["type"] is not None and c["type"] > 7}
    rep.check(goti == wanti, "type-tables", "pdu_items.PDU_ITEM_TYPES", f"{sorted(goti.items(), key=lambda x: x[1])}", f"item type codes must be {wanti}", mod=items, node=items.assign_stmts["PDU_ITEM_TYPES"][0])
    rep.check(len(goti) == len(it), "type-tables", "pdu_items.PDU_ITEM_TYPES", "one-to-one", "two type codes map to one class (the inverse table would lose one)", mod=items, node=items.assign_stmts["PDU_ITEM_TYPES"][0])
    inv = items.assigns.get("_TYPE_TO_PDU_ITEM", [None])[0]
    rep.check(inv is not None and norm(inv) == "{vv: kk for kk, vv in PDU_ITEM_TYPES.items()}", "type-tables", "pdu_items._TYPE_TO_PDU_ITEM", "inverse of PDU_ITEM_TYPES", "the class -> type table must be the inverse of the type -> class table", mod=items, node=items.assign_stmts["_TYPE_TO_PDU_ITEM"][0])
    t1 = repo.func("pdu", "PDU.pdu_type")
    rep.check("PDU_TYPES[self.__class__]" in norm(body_nodoc(t1)[-1]), "type-tables", "pdu.PDU.pdu_type", body_nodoc(t1)[-1], "pdu_type must come from PDU_TYPES", mod=pdu)
    t2 = repo.func("pdu_items", "PDUItem.item_type")
    rep.check("_TYPE_TO_PDU_ITEM[type(self)]" in norm(body_nodoc(t2)[-1]), "type-tables", "pdu_items.PDUItem.item_type", body_nodoc(t2)[-1], "item_type must come from _TYPE_TO_PDU_ITEM", mod=items)
    # no subclass overrides the type properties
    for name, ci in pm.classes.items():
        for p in ("pdu_type", "item_type", "__len__", "encode", "decode"):
            if p == "item_type" and sp["classes"][name]["type"] is None:
                continue  # the PDV item has no type byte
            if p in ci.getters or p in ci.methods:
                rep.fail("type-tables", f"{ci.mod.name.replace('pynetdicom.', '')}.{name}", f"overrides {p}", "a codec class overrides a base-class codec member: the table model no longer describes it", mod=ci.mod, node=ci.node)
    # generic encode()/decode() loops
    for mname, cname in (("pdu", "PDU"), ("pdu_items", "PDUItem")):
        m = repo.mod(mname)
        enc = repo.func(mname, f"{cname}.encode")
        loops = [x for x in walk_no_nested(enc) if isinstance(x, ast.For)]
        ok = False
        if len(loops) == 1 and norm(loops[0].iter) == "self._encoders" and isinstance(loops[0].target, ast.Tuple) and len(loops[0].target.elts) == 3:
            a_, f_, g_ = [norm(e) for e in loops[0].target.elts]
            adds = [norm(x.value) for x in ast.walk(loops[0]) if isinstance(x, ast.AugAssign) and isinstance(x.op, ast.Add)]
            rets = [norm(r.value) for r in walk_no_nested(enc) if isinstance(r, ast.Return)]
            acc = [norm(x.target) for x in ast.walk(loops[0]) if isinstance(x, ast.AugAssign)]
            ok = sorted(adds) == sorted([f"{f_}(getattr(self, {a_}), *{g_})", f"{f_}(*{g_})"]) and len(set(acc)) == 1 and rets == [acc[0]]
        rep.check(ok, "wrappers", f"{mname}.{cname}.encode", "concatenate func(getattr(self, attr), *args) / func(*args) over _encoders in order", "the table interpreter must emit every row, in table order", mod=m, node=enc)
        dec = repo.func(mname, f"{cname}.decode")
        loops = [x for x in walk_no_nested(dec) if isinstance(x, ast.For)]
        ok = False
        if len(loops) == 1 and norm(loops[0].iter) == "self._decoders" and isinstance(loops[0].target, ast.Tuple) and len(loops[0].target.elts) == 4 and isinstance(loops[0].target.elts[0], ast.Tuple):
            o_, l_ = [norm(e) for e in loops[0].target.elts[0].elts]
            a_, f_, g_ = [norm(e) for e in loops[0].target.elts[1:]]
            b_ = dec.args.args[1].arg
            slices = sorted(norm(x.value) for x in ast.walk(loops[0]) if isinstance(x, ast.Assign) and isinstance(x.value, ast.Call) and dotted(x.value.func) == "slice")
            sl_names = {norm(x.targets[0]) for x in ast.walk(loops[0]) if isinstance(x, ast.Assign) and isinstance(x.value, ast.Call) and dotted(x.value.func) == "slice"}
            sets = [norm(x) for x in ast.walk(loops[0]) if isinstance(x, ast.Call) and dotted(x.func) == "setattr"]
            ok = slices == sorted([f"slice({o_}, {o_} + {l_})", f"slice({o_}, None)"]) and len(sl_names) == 1 and sets == [f"setattr(self, {a_}, {f_}({b_}[{sl_names.copy().pop()}], *{g_}))"]
        rep.check(ok, "wrappers", f"{mname}.{cname}.decode", "setattr(self, attr, func(bytestream[offset:offset+length], *args)) over _decoders", "the table interpreter must slice exactly (offset, length) - or to the end when length is None", mod=m, node=dec)


def check_wrappers(repo, rep, pm):
    for mname, cname in (("pdu", "PDU"), ("pdu_items", "PDUItem")):
        m = repo.mod(mname)
        ci = repo.cls(mname, cname)
        fq = f"{mname}.{cname}"
        wb = ci.methods.get("_wrap_bytes")
        rep.need(wb is not None, f"{fq}._wrap_bytes vanished")
        b = body_nodoc(wb)
        rep.check(len(b) == 1 and isinstance(b[0], ast.Return) and norm(b[0].value) == wb.args.args[-1].arg, "wrappers", f"{fq}._wrap_bytes", b[0], "must return its argument unchanged", mod=m)
        wp = ci.methods.get("_wrap_pack")
        b = body_nodoc(wp)
        rep.check(len(b) == 1 and isinstance(b[0], ast.Return) and norm(b[0].value) == "packer(value)", "wrappers", f"{fq}._wrap_pack", b[0], "must return packer(value)", mod=m)
        wu = ci.methods.get("_wrap_unpack")
        b = body_nodoc(wu)
        rep.check(len(b) == 1 and isinstance(b[0], ast.Return) and norm(b[0].value) == "unpacker(bytestream)[0]", "wrappers", f"{fq}._wrap_unpack", b[0], "must return unpacker(bytestream)[0]", mod=m)
        ws = ci.methods.get("_wrap_encode_str")
        b = body_nodoc(ws)
        txt = norm(b[-1].value) if isinstance(b[-1], ast.Return) else ""
        has_pad = any(a.arg == "pad" for a in ws.args.args)
        ok = ".encode('ascii'" in txt and ((".ljust(pad)" in txt) == has_pad) and len(b) == 1
        rep.check(ok, "wrappers", f"{fq}._wrap_encode_str", b[-1], "must be ascii-encode (after ljust(pad) where a pad is given) and nothing else", mod=m)
        wi = ci.methods.get("_wrap_encode_items")
        src = " ".join(norm(s) for s in walk_no_nested(wi) if isinstance(s, ast.stmt))
        rep.check("for item in items:" in src and "bytestream += item.encode()" in src and "return bytestream" in src, "wrappers", f"{fq}._wrap_encode_items", "concatenate item.encode()", "must concatenate the items' encodings in list order", mod=m, node=wi)
    # related general SOP class list encoder: 2-byte length + uid per element
    items = repo.mod("pdu_items")
    wl = repo.func("pdu_items", "SOPClassCommonExtendedNegotiationSubItem._wrap_list")
    src = " ".join(norm(s) for s in walk_no_nested(wl) if isinstance(s, ast.stmt))
    rep.check("bytestream += PACK_UINT2(len(uid))" in src and "bytestream += self._wrap_encode_str(uid)" in src, "wrappers", "pdu_items.SOPClassCommonExtendedNegotiationSubItem._wrap_list", "2-byte length then uid, per element", "each related general SOP class is (uid-length(2), uid)", mod=items, node=wl)
