"""C13 - associations are established only when the acceptance policy allows them."""

from __future__ import annotations

import ast
import json

from ..cfg import CFG, typestate, witness, calls_at, path_summaries
from ..loader import expand_aliases, AnalysisError, Repo, body_nodoc, dotted, norm, walk_no_nested, enclosing, qualname, strip_cast, parent
from ..lints import no_swallow
from ..report import Report, VERIF

LEVEL = "other"
EXPLANATION = (
    "Path rule on ACSE._negotiate_as_acceptor plus operand checks. A typestate tracks whether a "
    "rejection triple has been decided (the variable is only ever assigned non-empty constant "
    "triples after its empty initialisation - 'sticky'); once decided, every path must take the "
    "reject branch (send_reject, EVT_REJECTED, kill, return) and can reach neither send_accept nor "
    "is_established = True. Each policy test is matched with its operands (calling title against "
    "the stripped configured list only when the list is non-empty; called title against the "
    "stripped own title only when enabled; identity verdict) and its (result, source, reason) "
    "triple is compared with the documented / PS3.8 Table 9-21 value. _check_user_identity's "
    "paths are enumerated: only 'no identity item' and 'no handler bound' accept without a "
    "positive verdict. Handlers can only run for established associations (who-may-call). Not "
    "decided: string comparison on exotic padding beyond strip()."
    ' Second session: item-not-dropped - no except clause in the PDU codec swallows a failed conversion of a received item (a user-identity item that cannot be converted must fail the PDU, not vanish before the identity check).'
    " Fourth session: (binding) AssociationServer.active_associations is evaluated on a thread list with associations of two servers of one AE: handlers are pushed to exactly the server's own acceptor associations."
    ' Fifth round: a trivial getter property (`self.ae` returning `self.assoc.ae`) is read as the chain it returns, on both sides of a comparison.'
)


def check_server_scope(repo: Repo, rep: Report, rule: str = "binding") -> None:
    """AssociationServer.bind() / unbind() / __init__ push handlers to the server's *own* live associations,
    which they find through AssociationServer.active_associations. That property is evaluated (sa/minipy.py) on
    a thread list holding acceptor associations of this server, of a second server of the same AE, requestor
    associations of the AE and unrelated threads: exactly the first group must come back - otherwise starting
    or re-binding one server rewrites the EVT_USER_ID / EVT_REQUESTED handlers of another server's
    connections that are still waiting for their request, and that server's acceptance policy is not applied."""
    from ..minipy import Interp, Obj, Raised, Unsupported

    tr = repo.mod("transport")
    ci = repo.cls("transport", "AssociationServer")
    fn = ci.getters.get("active_associations") if ci is not None else None
    if fn is None:
        rep.defer("transport.AssociationServer.active_associations vanished")
        return
    ae = Obj("ApplicationEntity", {})
    me = Obj("AssociationServer", {"ae": ae})
    other = Obj("AssociationServer", {"ae": ae})
    threads, want = [Obj("Thread", {"name": "MainThread"}), Obj("Thread", {"name": "worker-1"})], []
    k = 0
    for srv in (me, other, None):
        for acc in (True, False):
            for est in (False, True):
                k += 1
                a_ = Obj("Association", {"name": f"{'Acceptor' if acc else 'Requestor'}Thread@2026{k:04d}", "_server": srv if acc else None, "ae": ae, "is_acceptor": acc, "is_requestor": not acc, "mode": "acceptor" if acc else "requestor", "is_established": est, "is_aborted": False, "is_released": False, "@is_alive": lambda s_: True})
                threads.append(a_)
                if acc and srv is me:
                    want.append(a_)
    it_ = Interp({"threading": Obj("module", {"@enumerate": lambda s_: list(threads)}), "Association": "Association"})
    try:
        got = it_.call_function(fn, {fn.args.args[0].arg: me}) or []
    except Raised as r_:
        rep.fail(rule, "transport.AssociationServer.active_associations", f"raises {r_.kind}", "the server's live associations could not be listed", mod=tr, node=fn)
        return
    except Unsupported as exc_:
        rep.defer(f"transport.AssociationServer.active_associations could not be evaluated ({exc_})")
        return
    miss = [a_ for a_ in want if not any(g_ is a_ for g_ in got)]
    extra = [g_ for g_ in got if not any(g_ is a_ for a_ in want)]
    what = ""
    if extra:
        e0 = extra[0]
        what = "; it also returns " + ("an acceptor association of another server of the same AE" if isinstance(e0, Obj) and e0.attrs.get("_server") is other else "a requestor association" if isinstance(e0, Obj) and e0.attrs.get("is_requestor") else "a thread that is not one of its associations")
    if miss:
        what += "; it leaves out one of its own acceptor associations"
    rep.check(not miss and not extra, rule, "transport.AssociationServer.active_associations", f"{len(want)} acceptor associations of this server among {len(threads)} threads -> {len(got)} returned", f"the handlers a server binds (or its defaults at start-up) are pushed to exactly its own live acceptor associations{what}: the user-identity / request handlers of another server's pending connections are replaced, so a request that server's policy refuses is accepted (or the other way round)", mod=tr, node=fn)


def run(repo: Repo, rep: Report, tier: str) -> None:
    rep.rule("sticky-reject", "once a rejection triple is decided every path sends A-ASSOCIATE-RJ and returns; send_accept / is_established = True are unreachable from it")
    rep.rule("policy-tests", "calling / called AE title and identity tests use the documented operands and triples")
    rep.rule("identity-verdict", "_check_user_identity accepts only on: no identity item, no handler bound (NotImplementedError), or a truthy verdict without exception")
    rep.rule("no-handler-after-reject", "DIMSE service handlers are reachable only through the established-association reactor")
    rep.rule("title-strip", "AE titles decoded from an A-ASSOCIATE-RQ have leading/trailing spaces removed before comparison")
    rep.rule("item-not-dropped", "no except clause in the PDU codec swallows a failed item conversion: a received identity / negotiation item is converted or the PDU fails")
    rep.floor("codec except clauses", no_swallow(repo, rep, "item-not-dropped"), 3)
    sp = json.loads((VERIF / "spec" / "ps3_8_fsm.json").read_text())["rj_codes"]
    acse = repo.mod("acse")
    fn = repo.func("acse", "ACSE._negotiate_as_acceptor")
    fq = "acse.ACSE._negotiate_as_acceptor"
    var = "reject_assoc_rsd"
    assigns = [s for s in walk_no_nested(fn) if isinstance(s, (ast.Assign, ast.AnnAssign)) and norm(s.targets[0] if isinstance(s, ast.Assign) else s.target) == var]
    rep.floor("reject triple assignments", len(assigns), 4)
    first = min(assigns, key=lambda s: s.lineno)
    rep.check(isinstance(first.value, ast.Tuple) and not first.value.elts, "sticky-reject", fq, first, "the rejection variable must start empty (no rejection decided)", mod=acse)
    triples = {}
    for s in assigns:
        if s is first:
            continue
        v = s.value
        ok = isinstance(v, ast.Tuple) and len(v.elts) == 3 and all(isinstance(e, ast.Constant) and isinstance(e.value, int) for e in v.elts)
        rep.check(ok, "sticky-reject", fq, s, "after initialisation the rejection variable may only be assigned a constant non-empty (result, source, reason) triple: a rejection, once decided, is never withdrawn", mod=acse)
        if ok:
            t = tuple(e.value for e in v.elts)
            triples[s.lineno] = (t, s)
            valid = t[0] in sp["result"] and str(t[1]) in sp["source_reasons"] and t[2] in sp["source_reasons"][str(t[1])]
            rep.check(valid, "policy-tests", fq, f"{norm(s)}", f"{t} is not a valid (result, source, reason) combination of PS3.8 Table 9-21", mod=acse, node=s)

    # ---- typestate: decided => reject branch ------------------------------------------
    cfg = CFG(fn, body=body_nodoc(fn), local_exc_only=True)
    bad = []

    def transfer(n, st):
        decided, rejected_sent = st
        if n.kind == "stmt":
            a = n.ast
            if isinstance(a, (ast.Assign, ast.AnnAssign)) and norm(a.targets[0] if isinstance(a, ast.Assign) else a.target) == var:
                decided = bool(isinstance(a.value, ast.Tuple) and a.value.elts)
            for c in calls_at(n):
                d = dotted(c.func) or ""
                if d == "self.send_reject":
                    rejected_sent = True
                if d == "self.send_accept" and decided:
                    bad.append((n, st, "A-ASSOCIATE-AC can be sent although a rejection was decided"))
            if isinstance(a, ast.Assign) and norm(a.targets[0]) == "self.assoc.is_established" and norm(a.value) == "True" and (decided or rejected_sent):
                bad.append((n, st, "the association can be marked established although a rejection was decided"))
        if n.kind == "test" and norm(n.ast.test) == var:
            return [((decided, rejected_sent), {"true"} if decided else {"false"})]
        if n.kind == "test" and norm(n.ast.test) == f"not {var}":
            return [((decided, rejected_sent), {"false"} if decided else {"true"})]
        return [((decided, rejected_sent), None)]

    ins, pred = typestate(cfg, (False, False), transfer)
    for st in ins.get(cfg.exit.id, ()):
        decided, sent = st
        if decided and not sent:
            bad.append((cfg.exit, st, "a path on which a rejection was decided ends without send_reject()"))
    seen = set()
    for n, st, msg in bad:
        if msg in seen:
            continue
        seen.add(msg)
        rep.fail("sticky-reject", fq, f"{n.text()} :: {msg[:50]}", msg, mod=acse, node=n.ast or fn, path=witness(cfg, pred, n, st))
    if not bad:
        rep.ok("sticky-reject", f"{fq} :: all paths", "a decided rejection always ends in send_reject and never in accept/established")
    rj = [i for i in walk_no_nested(fn) if isinstance(i, ast.If) and norm(i.test) == var]
    rep.need(len(rj) == 1, f"{fq}: reject branch vanished")
    body = [norm(s) for s in rj[0].body if not norm(s).startswith("LOGGER")]
    want = [f"self.send_reject(*{var})", "evt.trigger(self.assoc, evt.EVT_REJECTED, {})", "self.assoc.kill()", "return"]
    rep.check(body == want, "sticky-reject", fq, f"reject branch: {body}", f"the reject branch must be exactly {want}", mod=acse, node=rj[0])
    acc = [n for n in cfg.nodes if n.kind == "stmt" and any(dotted(c.func) == "self.send_accept" for c in calls_at(n))]
    rjn = [n for n in cfg.nodes if n.kind == "test" and n.ast is rj[0]]
    rep.check(len(acc) == 1 and len(rjn) == 1 and cfg.dominates(rjn[0], acc[0]), "sticky-reject", fq, "the reject test dominates send_accept", "acceptance must not be reachable without passing the rejection test", mod=acse, node=fn)
    # all policy decisions precede the reject test
    rep.check(all(s.lineno < rj[0].lineno for s in assigns), "sticky-reject", fq, "every rejection decision precedes the reject test", "a policy test placed after the reject test can never reject", mod=acse, node=fn)

    # ---- policy tests --------------------------------------------------------------------------
    ifs = {norm(i.test): i for i in walk_no_nested(fn) if isinstance(i, ast.If)}

    def triple_in(i):
        t = [s for s in i.body if isinstance(s, ast.Assign) and norm(s.targets[0]) == var]
        return tuple(e.value for e in t[0].value.elts) if t else None

    calling = sorted([i for t, i in ifs.items() if "calling_ae_title" in t], key=lambda i: i.lineno)
    rep.need(len(calling) >= 1, f"{fq}: calling AE title test vanished")
    t = norm(calling[0].test)
    auth = [s for s in walk_no_nested(fn) if isinstance(s, ast.Assign) and norm(s.targets[0]) == "authorised_aet"]
    _X = lambda x_: expand_aliases(acse.classes.get("ACSE"), x_)  # noqa: E731
    ok = _X(t) == _X("self.assoc.ae.require_calling_aet and assoc_rq.calling_ae_title not in authorised_aet") and len(auth) == 1 and _X(norm(auth[0].value)) == _X("[s.strip() for s in self.assoc.ae.require_calling_aet]")
    rep.check(ok, "policy-tests", fq, calling[0], "reject iff the required-calling list is non-empty and the calling title is not in the stripped list", mod=acse)
    rep.check(triple_in(calling[0]) == (1, 1, 3), "policy-tests", fq, f"calling title not recognised -> {triple_in(calling[0])}", "documented: rejected-permanent, service-user, calling AE title not recognised (1, 1, 3)", mod=acse, node=calling[0])
    called = sorted([i for t, i in ifs.items() if "called_ae_title" in t], key=lambda i: i.lineno)
    rep.need(len(called) >= 1, f"{fq}: called AE title test vanished")
    ok = _X(norm(called[0].test)) == _X("self.assoc.ae.require_called_aet and assoc_rq.called_ae_title != self.acceptor.ae_title.strip()")
    rep.check(ok, "policy-tests", fq, called[0], "reject iff the check is enabled and the called title differs from the acceptor's own (stripped) title", mod=acse)
    rep.check(triple_in(called[0]) == (1, 1, 7), "policy-tests", fq, f"called title not recognised -> {triple_in(called[0])}", "documented: rejected-permanent, service-user, called AE title not recognised (1, 1, 7)", mod=acse, node=called[0])
    ident = [i for t, i in ifs.items() if t == "not is_valid"]
    rep.need(len(ident) == 1, f"{fq}: identity verdict test vanished")
    outer = enclosing(ident[0], (ast.If,))
    okid = outer is not None and norm(outer.test) == "self.requestor.user_identity" and any(norm(s) in ("(is_valid, id_response) = self._check_user_identity()", "is_valid, id_response = self._check_user_identity()") for s in outer.body) and triple_in(ident[0]) is not None
    rep.check(okid, "policy-tests", fq, outer or ident[0], "when the request carries a user identity the verdict of _check_user_identity() decides; a negative one must reject", mod=acse, node=ident[0])
    aq = [s for s in walk_no_nested(fn) if isinstance(s, ast.Assign) and norm(s.targets[0]) == "assoc_rq"]
    rep.check(len(aq) == 1 and "self.requestor.primitive" in norm(aq[0].value), "policy-tests", fq, aq[0] if aq else "assoc_rq", "the tested titles are those of the received A-ASSOCIATE request", mod=acse, node=fn)

    # ---- identity verdict -----------------------------------------------------------------------
    cu = repo.func("acse", "ACSE._check_user_identity")
    fqi = "acse.ACSE._check_user_identity"
    paths = [p for p in path_summaries(cu, body=body_nodoc(cu), local_exc_only=True) if not p.raised]
    n_acc = 0
    for p in paths:
        if p.ret is None:
            continue
        rep.need(isinstance(p.ret, ast.Tuple) and isinstance(p.ret.elts[0], ast.Constant), f"{fqi}: return shape {norm(p.ret)}")
        verdict = p.ret.elts[0].value
        handlers = [n.ast for n in p.nodes if n.kind == "handler"]
        htypes = [norm(h.type) if h.type else "" for h in handlers]
        conds = [(norm(c), t) for c, t in p.conds]
        via_trigger = any(n.kind == "stmt" and any(dotted(c.func) == "evt.trigger" for c in calls_at(n)) for n in p.nodes)
        if verdict:
            n_acc += 1
            reason = None
            if ("req is None", True) in conds:
                reason = "no identity item"
            elif "NotImplementedError" in htypes:
                reason = "no handler bound"
            elif ("not identity_verified", False) in conds and not any(h and h != "NotImplementedError" and "server_response" not in "".join(norm(s) for s in enclosing(hh, (ast.Try,)).body) for h, hh in zip(htypes, handlers)):
                reason = "positive verdict"
            rep.check(reason is not None, "identity-verdict", fqi, f"return {norm(p.ret)} via {htypes or conds[-2:]}", "the identity check accepts on a path that is neither 'no identity', 'no handler bound' nor 'positive verdict without exception'", mod=acse, node=p.ret)
        else:
            rep.ok("identity-verdict", f"{fqi} :: return {norm(p.ret)} via {htypes or conds[-1:]}", "rejecting path")
    rep.floor("accepting paths of the identity check", n_acc, 3)
    # the generic exception path must reject
    gen = [h for h in walk_no_nested(cu) if isinstance(h, ast.ExceptHandler) and norm(h.type) == "Exception" and any("EVT_USER_ID" in norm(s) for s in enclosing(h, (ast.Try,)).body)]
    rep.need(len(gen) == 1, f"{fqi}: generic handler around the EVT_USER_ID trigger vanished")
    rets = [r for r in ast.walk(gen[0]) if isinstance(r, ast.Return)]
    rep.check(len(rets) == 1 and norm(rets[0].value) == "(False, None)", "identity-verdict", fqi, f"except Exception: {norm(rets[0]) if rets else None}", "an exception in the user-identity handler must reject the association", mod=acse, node=gen[0])
    fv = [i for i in walk_no_nested(cu) if isinstance(i, ast.If) and norm(i.test) == "not identity_verified"]
    rep.check(len(fv) == 1 and any(norm(s) == "return (False, None)" for s in fv[0].body), "identity-verdict", fqi, fv[0] if fv else "verdict test", "a falsy verdict must reject", mod=acse, node=cu)

    # ---- no handler after rejection ----------------------------------------------------------------
    sr = repo.func("acse", "ACSE.send_reject")
    src = [norm(s) for s in walk_no_nested(sr) if isinstance(s, ast.stmt)]
    rep.check("self.assoc.is_rejected = True" in src and "self.assoc.is_established = False" in src, "no-handler-after-reject", "acse.ACSE.send_reject", "is_rejected = True; is_established = False", "a rejected association must never look established", mod=acse, node=sr)
    assoc = repo.mod("association")
    n_scp = 0
    for m in repo.modules.values():
        for c in [x for x in ast.walk(m.tree) if isinstance(x, ast.Call) and isinstance(x.func, ast.Attribute) and x.func.attr == "SCP"]:
            n_scp += 1
            q = qualname(c)
            rep.check(m.name == "pynetdicom.association" and q == "Association._serve_request", "no-handler-after-reject", f"{m.name.replace('pynetdicom.', '')}.{q}", enclosing(c, (ast.stmt,)), "service classes may only be entered from Association._serve_request", mod=m, node=c)
    rep.floor("SCP call sites", n_scp, 1)
    callers = []
    for m in repo.modules.values():
        for n in ast.walk(m.tree):
            if isinstance(n, ast.Attribute) and n.attr == "_serve_request" and isinstance(n.ctx, ast.Load):
                callers.append((m, qualname(n), n))
    allowed = {("pynetdicom.association", "Association._run_reactor"), ("pynetdicom.dimse", "DIMSEServiceProvider.receive_primitive")}
    for m, q, n in callers:
        rep.check((m.name, q) in allowed, "no-handler-after-reject", f"{m.name.replace('pynetdicom.', '')}.{q}", enclosing(n, (ast.stmt,)), "_serve_request reached from outside the established-association reactor / the DIMSE provider", mod=m, node=n)
    rep.floor("_serve_request references", len(callers), 2)
    rr = repo.func("association", "Association.run_reactor")
    calls = [c for c in walk_no_nested(rr) if isinstance(c, ast.Call) and dotted(c.func) == "self._run_reactor"]
    ok = bool(calls) and all(any(norm(i.test) == "self.is_established" for i in _enclosing_ifs(c, rr)) for c in calls)
    rep.check(ok, "no-handler-after-reject", "association.Association.run_reactor", "_run_reactor() only under `if self.is_established`", "the DIMSE-serving reactor must only run for an established association", mod=assoc, node=rr)
    # DIMSE messages only reach the provider in Sta6/Sta7 (DT-2 / AR-6): after a reject the provider is in Sta13
    from ..fsm_model import ActionModel
    am = ActionModel(repo)
    dimse_actions = set()
    for a in am.actions:
        for pe in am.paths(am.action_func(a)):
            if any(e[0] == "dimse" for e in pe.effects):
                dimse_actions.add(a)
    states = sorted({s for (e, s), a in am.table.items() if a in dimse_actions})
    rep.check(set(states) <= {"Sta6", "Sta7"}, "no-handler-after-reject", "fsm.TRANSITION_TABLE", f"P-DATA indications are issued in {states}", "peer data must reach the DIMSE provider only on an established association (Sta6) or during its release (Sta7)", mod=am.mod, node=am.mod.assign_stmts["TRANSITION_TABLE"][0])

    # ---- title strip -----------------------------------------------------------------------------------
    pdu = repo.mod("pdu")
    for attr in ("called_ae_title", "calling_ae_title"):
        st = repo.func("pdu", f"A_ASSOCIATE_RQ.{attr}:setter")
        src = [norm(s) for s in walk_no_nested(st) if isinstance(s, ast.stmt)]
        ok = any(s == "value = decode_bytes(value).strip()" for s in src)
        rep.check(ok, "title-strip", f"pdu.A_ASSOCIATE_RQ.{attr}", "value = decode_bytes(value).strip()", "PS3.8 Table 9-11: leading and trailing spaces of AE titles are not significant", mod=pdu, node=st)

    # ---- handler binding integrity -----------------------------------------------------------------------
    rep.rule("binding", "the identity handler consulted is the one bound: binding stores the handler, unbinding resets it only when the named handler is the bound one, only bind/unbind write the table, the default handler is the 'none bound' marker")
    evm = repo.mod("events")
    add = evm.funcs.get("_add_handler")
    rem = evm.funcs.get("_remove_handler")
    rep.need(add is not None and rem is not None, "events._add_handler / _remove_handler vanished")

    def interv_branch(fn_):
        for i in ast.walk(fn_):
            if isinstance(i, ast.If) and norm(i.test) == "isinstance(event, InterventionEvent)":
                return i.body
        return None

    ab = interv_branch(add)
    ap = [a.arg for a in add.args.args]
    ok = ab is not None and [norm(x) for x in ab if not isinstance(x, ast.Expr)] == [f"{ap[1]}[event] = {ap[2]}"]
    rep.check(ok, "binding", "events._add_handler", f"intervention: {[norm(x) for x in (ab or [])]}", "binding an intervention event must store exactly the given (handler, args)", mod=evm, node=add)
    rb = interv_branch(rem)
    rp_ = [a.arg for a in rem.args.args]
    ok = False
    if rb is not None:
        stmts = [x for x in rb if not (isinstance(x, ast.Expr) and isinstance(x.value, ast.Constant))]
        if len(stmts) == 1 and isinstance(stmts[0], ast.If):
            t = norm(stmts[0].test)
            guards = (f"{rp_[2]} in {rp_[1]}[event]", f"{rp_[1]}[event][0] == {rp_[2]}", f"{rp_[2]} == {rp_[1]}[event][0]", f"{rp_[1]}[event][0] is {rp_[2]}", f"{rp_[2]} is {rp_[1]}[event][0]")
            body = [norm(x) for x in stmts[0].body]
            ok = t in guards and body == [f"{rp_[1]}[event] = (get_default_handler(event), None)"] and not stmts[0].orelse
    rep.check(ok, "binding", "events._remove_handler", f"intervention: {[norm(x)[:70] for x in (rb or [])]}", "unbind(event, h) may reset an intervention event to its default handler only when h is the handler currently bound: otherwise unbinding some other function silently removes e.g. the EVT_USER_ID handler, and the default handler's NotImplementedError is read as 'no handler bound -> accept'", mod=evm, node=rem)
    gd = evm.funcs.get("get_default_handler")
    rep.need(gd is not None, "events.get_default_handler vanished")
    dmap = [d for d in ast.walk(gd) if isinstance(d, ast.Dict)]
    dflt = None
    if len(dmap) == 1:
        for k, v in zip(dmap[0].keys, dmap[0].values):
            if norm(k) == "EVT_USER_ID":
                dflt = norm(v)
    dfn = evm.funcs.get(dflt) if dflt else None
    ok = dfn is not None and any(isinstance(x, ast.Raise) and "NotImplementedError" in norm(x) for x in body_nodoc(dfn)) and not any(isinstance(x, ast.Return) for x in ast.walk(dfn))
    rep.check(ok, "binding", "events.get_default_handler", f"EVT_USER_ID -> {dflt}", "the default identity handler must unconditionally raise NotImplementedError (the 'no handler bound' marker _check_user_identity accepts on)", mod=evm, node=gd)
    check_server_scope(repo, rep)
    # who writes a handler table
    writers = set()
    for mname, m in sorted(repo.modules.items()):
        short = mname.replace("pynetdicom.", "")
        if short.startswith(("apps.", "tests.", "benchmarks.")):
            continue
        for n in ast.walk(m.tree):
            if isinstance(n, ast.Attribute) and n.attr == "_handlers" and norm(n.value) in ("self", "self.server", "assoc", "self.assoc"):
                p_ = parent(n)
                w = isinstance(n.ctx, ast.Store) or (isinstance(p_, ast.Subscript) and p_.value is n and isinstance(p_.ctx, (ast.Store, ast.Del))) or (isinstance(p_, ast.Attribute) and p_.attr in ("pop", "clear", "update", "setdefault", "popitem"))
                if w:
                    q = qualname(n).split(".")[-1]
                    writers.add(f"{short}.{qualname(n)}")
                    rep.check(q == "__init__", "binding", f"{short}.{qualname(n)}", enclosing(n, (ast.stmt,)) or n, "a handler table is written directly, bypassing _add_handler / _remove_handler", mod=m, node=n)
    for nm in ("_add_handler", "_remove_handler"):
        for mname, m in sorted(repo.modules.items()):
            short = mname.replace("pynetdicom.", "")
            if short.startswith(("apps.", "tests.", "benchmarks.")):
                continue
            for c in ast.walk(m.tree):
                if isinstance(c, ast.Call) and (dotted(c.func) or "").endswith(nm):
                    q = qualname(c).split(".")[-1]
                    rep.check(q in ("bind", "unbind"), "binding", f"{short}.{qualname(c)}", enclosing(c, (ast.stmt,)), f"{nm} is called outside bind()/unbind()", mod=m, node=c)
    # ---- state is per instance -------------------------------------------------------------------
    from ..lints import per_instance_state
    rep.rule("per-instance-state", "mutable state of the protocol objects is created per instance, never as a class attribute")
    per_instance_state(repo, rep, "per-instance-state", {"association": ("Association", "ServiceUser"), "ae": ("ApplicationEntity",), "transport": ("AssociationServer", "ThreadedAssociationServer", "RequestHandler"), "acse": ("ACSE",)})


def _enclosing_ifs(node, fn):
    from ..loader import parent
    out = []
    p = parent(node)
    while p is not None and p is not fn:
        if isinstance(p, ast.If):
            out.append(p)
        p = parent(p)
    return out
