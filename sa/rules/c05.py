"""C05 - no schedule drives the provider into an undefined event; it returns to idle."""

from __future__ import annotations

import ast

from ..cfg import CFG, calls_at
from ..loader import AnalysisError, Repo, body_nodoc, dotted, norm, walk_no_nested, enclosing, strip_cast, qualname
from ..reactor_model import ReactorModel, PRUNED_EXC
from ..report import Report
from .c04 import effect_tag

LEVEL = "other"
EXPLANATION = (
    "Structural clauses of a schedule-quantified property. (kill-on-idle) every path of every "
    "action that returns Sta1 calls kill_dul(), and the reactor tests the kill flag before it "
    "dequeues an event. (artim) the per-action ARTIM effects extracted from the action paths and the "
    "statically evaluated transition table give, by fixpoint, the reachable (state, ARTIM) pairs with "
    "ARTIM in {never started, running, stopped in time, stopped past its deadline}; Timer.expired is "
    "true in 'running' (eventually) and in 'stopped past deadline' (from Timer's code), and "
    "run_reactor raises Evt18 with no state test, so every such pair must have (Evt18, state) in the "
    "table. (reactor-order) the ARTIM test precedes the read-or-primitive step and exactly one event "
    "is dequeued per iteration. (queue-guard) a non-blocking get() on the PDU / primitive queue "
    "without a queue.Empty handler needs every triggering event of that action to guarantee a queued "
    "object. (survival) no explicit raise on peer-controlled data is reachable, unhandled, from an "
    "action: received PDUs are pre-validated inside the Evt19 guard and DIMSE decoding is guarded. "
    "Not decided: which (user event, state) pairs the local association thread can produce under all "
    "interleavings."
    ' Second session: action effects are interprocedural (a call to another fsm function that is handed the provider is expanded, forks included); artim-progress: no cycle of peer-driven events through (state, ARTIM running) pairs may restart the timer, otherwise the peer postpones Evt18 indefinitely.'
    " Third session: (abort-once) the single-abort flag is tested and raised before the A-ABORT request is issued; (abort-not-after-release) the request is dominated by an unweakened `self.is_released` test taken on its false branch; (release-only-established) the reactor answers a peer's release request only under `self.is_established`."
    " Fifth round: (queue-guard) borrows C03's one-read-per-pass; (timer-run-state) borrows C04's artim-run-state; (abort-not-after-release) no abort request is issued by the library once the release has completed."
    " Sixth round: (kill-on-idle) who may call kill_dul() / set _kill_thread: the actions returning to Sta1, stop_dul() under its Sta1 test, the requestor's negotiation after a non-accept."
)

PDU_EVENTS = {"Evt3", "Evt4", "Evt6", "Evt10", "Evt12", "Evt13", "Evt16"}
PRIM_EVENTS = {"Evt1", "Evt2", "Evt7", "Evt8", "Evt9", "Evt11", "Evt14", "Evt15"}


def run(repo: Repo, rep: Report, tier: str) -> None:
    rep.rule("kill-on-idle", "every path of an action returning Sta1 calls kill_dul(); run_reactor tests _kill_thread before dequeuing")
    rep.rule("artim", "every reachable (state, ARTIM) pair in which the timer can report expiry has (Evt18, state) in the transition table")
    rep.rule("reactor-order", "run_reactor: ARTIM check first, then one read-or-primitive step, then exactly one event is dequeued and dispatched")
    rep.rule("queue-guard", "unguarded queue.get(False) in an action only where every triggering event guarantees a queued PDU / primitive")
    rep.rule("survival", "no unhandled explicit raise on peer data reachable from an action; an exception in an action is fatal (do_action re-raises, no handler in run_reactor)")
    rm = ReactorModel(repo)
    am = rm.am
    fsm = am.mod
    dul = rm.dul

    # ---- kill-on-idle ----------------------------------------------------------
    n_sta1 = 0
    per_action = {}
    for a in sorted(am.actions):
        fn = am.action_func(a)
        paths = [p for p in am.paths(fn) if not p.raised]
        per_action[a] = paths
        for pe in paths:
            if pe.ret == "Sta1":
                n_sta1 += 1
                ok = any(e[0] == "kill" for e in pe.effects)
                rep.check(ok, "kill-on-idle", f"fsm.{fn.name}", f"path L{'/'.join(map(str, pe.lines[-4:]))} -> Sta1", f"{a} returns to Sta1 without kill_dul(): the provider thread keeps running with the association gone", mod=fsm, node=fn)
    rep.floor("action paths returning Sta1", n_sta1, 7)
    rr = repo.func("dul", "DULServiceProvider.run_reactor")
    cfg = CFG(rr, body=body_nodoc(rr), local_exc_only=True)
    loops = [n for n in cfg.nodes if n.kind == "test" and isinstance(n.ast, ast.While)]
    rep.need(len(loops) == 1, "dul.run_reactor: main loop not found")
    loop = loops[0]

    def nodes_calling(suffix):
        return [n for n in cfg.nodes if n.kind in ("stmt", "test") and any((dotted(c.func) or "").endswith(suffix) for c in calls_at(n))]

    kill = [n for n in cfg.nodes if n.kind == "test" and norm(n.ast.test) == "self._kill_thread" and loop in n.loops]
    get = nodes_calling("event_queue.get")
    act = nodes_calling("state_machine.do_action")
    rep.need(get and act, "dul.run_reactor: event dequeue / dispatch not found")
    if len(get) != 1 or len(act) != 1:
        rep.fail("reactor-order", "dul.DULServiceProvider.run_reactor", f"{len(get)} event_queue.get sites, {len(act)} do_action sites", "more than one event can be dequeued / dispatched per loop iteration: the kill flag and the ARTIM test are skipped between them", mod=dul, node=rr)
    ok = len(kill) == 1 and cfg.dominates(kill[0], get[0]) and any(isinstance(s, ast.Break) for s in kill[0].ast.body)
    check_kill_callers(repo, rep, "kill-on-idle")
    rep.check(ok, "kill-on-idle", "dul.DULServiceProvider.run_reactor", "if self._kill_thread: break before event_queue.get", "the reactor must stop before processing another event once an action asked for it", mod=dul, node=rr)

    # ---- reactor order ----------------------------------------------------------
    art = [n for n in cfg.nodes if n.kind == "test" and norm(n.ast.test) == "self.artim_timer.expired" and loop in n.loops]
    prim = nodes_calling("self._process_recv_primitive")
    trans = nodes_calling("self._is_transport_event")
    rep.need(len(art) == 1 and prim and trans, "dul.run_reactor: ARTIM / primitive / transport steps not found")
    first = all(cfg.dominates(art[0], x) for x in prim + trans)
    # and the ARTIM test is not re-reachable from the read step within the same iteration
    same_iter = any(art[0].id in cfg.reachable(x, without={loop.id}) for x in prim + trans)
    rep.check(first and not same_iter, "reactor-order", "dul.DULServiceProvider.run_reactor", "ARTIM expiry test before _process_recv_primitive / _is_transport_event", "if the timer expires while a PDU becomes readable in the same iteration, Evt18 must be queued ahead of the PDU's event (otherwise e.g. Evt6 moves Sta2 to Sta3 where Evt18 is undefined)", mod=dul, node=art[0].ast)
    puts18 = [s for s in art[0].ast.body if norm(s) == "self.event_queue.put('Evt18')"]
    rep.check(len(puts18) == 1, "reactor-order", "dul.DULServiceProvider.run_reactor", "expired -> put('Evt18')", "ARTIM expiry must raise Evt18", mod=dul, node=art[0].ast)
    ok = cfg.dominates(get[0], act[0]) and norm(act[0].ast).endswith("do_action(event)") and len([n for n in cfg.nodes if n.kind in ("stmt", "test") and any((dotted(c.func) or "").endswith("event_queue.get") for c in calls_at(n))]) == 1
    rep.check(ok, "reactor-order", "dul.DULServiceProvider.run_reactor", "one event_queue.get per iteration, dispatched by do_action", "exactly one event is processed per loop iteration", mod=dul, node=rr)
    # either a primitive or a transport read per iteration (elif)
    pt = [i for i in walk_no_nested(rr) if isinstance(i, ast.If) and "_process_recv_primitive" in norm(i.test)]
    ok = len(pt) == 1 and len(pt[0].orelse) == 1 and isinstance(pt[0].orelse[0], ast.If) and "_is_transport_event" in norm(pt[0].orelse[0].test)
    rep.check(ok, "reactor-order", "dul.DULServiceProvider.run_reactor", "if _process_recv_primitive(): .. elif _is_transport_event(): ..", "one read-or-primitive step per iteration", mod=dul, node=rr)
    # do_action is outside any handler and re-raises
    from ..escape import enclosing_handlers
    dcall = [c for c in walk_no_nested(rr) if isinstance(c, ast.Call) and (dotted(c.func) or "").endswith("do_action")][0]
    fatal = not enclosing_handlers(dcall, rr)
    da = repo.func("fsm", "StateMachine.do_action")
    reraises = any(isinstance(r, ast.Raise) and r.exc is None for r in walk_no_nested(da))
    rep.extra["exception_in_action_is_fatal"] = bool(fatal and reraises)

    # ---- ARTIM fixpoint ----------------------------------------------------------------
    # per action: list of (next state, artim ops in order, kills)
    eff = {}
    for a, paths in per_action.items():
        outs = set()
        for pe in paths:
            ops = tuple(e[1] for e in pe.effects if e[0] == "artim")
            outs.add((pe.ret, ops, any(e[0] == "kill" for e in pe.effects)))
        eff[a] = outs

    def apply(art_state, ops):
        res = {art_state}
        for op in ops:
            nxt = set()
            for s in res:
                if op in ("start", "restart"):
                    nxt.add("running")
                elif op == "stop":
                    if s == "running":
                        nxt |= {"stopped", "stopped-late"}  # the deadline may pass before stop()
                    else:
                        nxt.add(s)
                else:
                    raise AnalysisError(f"unmodelled ARTIM operation {op}")
            res = nxt
        return res

    # Timer semantics this model relies on (C09 decides them): expired only if started; a stopped
    # timer keeps the verdict it had when stopped.
    reach = {("Sta1", "never")}
    work = [("Sta1", "never")]
    edges = {}
    all_edges = []
    while work:
        st, ar = work.pop()
        if ar == "stopped-late":
            # expiry is reported at the very next iteration (ARTIM is tested first), so what
            # matters is whether Evt18 is defined *here*; if it is not, the thread dies here
            continue
        for (ev, s), a in am.table.items():
            if s != st:
                continue
            if ev == "Evt18" and ar not in ("running", "stopped-late"):
                continue
            for nxt, ops, kills in eff[a]:
                for ar2 in apply(ar, ops):
                    if kills and nxt == "Sta1":
                        continue  # reactor stops; a new association starts from (Sta1, never) in a new provider
                    key = (nxt, ar2)
                    all_edges.append(((st, ar), key, ev, a, ops))
                    if key not in reach:
                        reach.add(key)
                        edges[key] = (st, ar, ev, a)
                        work.append(key)
    rep.extra["reachable_state_artim_pairs"] = sorted(f"{s}/{a}" for s, a in reach)
    n_pairs = 0
    for st, ar in sorted(reach):
        if ar not in ("running", "stopped-late"):
            continue
        n_pairs += 1
        ok = ("Evt18", st) in am.table
        how = edges.get((st, ar))
        via = f"reached by {how[3]} on {how[2]} from {how[0]}/{how[1]}" if how else ""
        fn = am.action_func(how[3]) if how else None
        rep.check(ok, "artim", f"fsm.{fn.name}" if fn else "fsm.TRANSITION_TABLE", f"({st}, ARTIM {ar}) {via}", f"ARTIM can report expiry in {st} ({'running' if ar == 'running' else 'stopped after its deadline: Timer keeps reporting expired'}), run_reactor then queues Evt18, but (Evt18, {st}) is not in the transition table: InvalidEventError kills the provider thread", mod=fsm, node=(fn or fsm.assign_stmts['TRANSITION_TABLE'][0]))
    rep.floor("(state, ARTIM) pairs that can report expiry", n_pairs, 2)

    # ---- the deadline cannot be pushed back by the peer -------------------------------------------
    # While ARTIM runs, the provider's return to idle hangs on Evt18. If a cycle of peer-driven events
    # (received PDUs, valid or not) through pairs with the timer running contains a (re)start, the peer
    # postpones the expiry for as long as it keeps sending: the provider never gets back to Sta1.
    rep.rule("artim-progress", "no cycle of peer-driven events through states with ARTIM running restarts the timer (the peer cannot postpone Evt18 indefinitely)")
    PEER = {"Evt3", "Evt4", "Evt6", "Evt10", "Evt12", "Evt13", "Evt16", "Evt19"}
    succ: dict = {}
    for u, v, ev, a, ops in all_edges:
        if ev in PEER and u[1] == "running" and v[1] == "running":
            succ.setdefault(u, set()).add(v)

    def reaches(src, dst):
        seen, todo = {src}, [src]
        while todo:
            x = todo.pop()
            if x == dst:
                return True
            for y in succ.get(x, ()):
                if y not in seen:
                    seen.add(y)
                    todo.append(y)
        return False

    n_cyc = 0
    reported = set()
    for u, v, ev, a, ops in all_edges:
        if ev in PEER and u[1] == "running" and v[1] == "running":
            n_cyc += 1
            if any(op in ("start", "restart") for op in ops) and reaches(v, u) and a not in reported:
                reported.add(a)
                fn = am.action_func(a)
                rep.fail("artim-progress", f"fsm.{fn.name}", f"({u[0]}, {ev}) -> {a} -> {v[0]} restarts ARTIM on a cycle", f"{a} (re)starts ARTIM on {ev} in {u[0]} and the provider can come back to {u[0]} with the timer running on peer-driven events alone: a peer that keeps sending PDUs postpones the ARTIM expiry indefinitely, the provider stays in {u[0]} and never returns to idle or closes the connection", mod=fsm, node=fn)
    if not reported:
        rep.ok("artim-progress", f"{n_cyc} peer-driven transitions between pairs with ARTIM running: none on a cycle restarts the timer")
    rep.floor("peer-driven transitions with ARTIM running", n_cyc, 5)

    # ---- queue guards ---------------------------------------------------------------------
    from ..escape import catches
    n_gets = 0
    for a in sorted(am.actions):
        fn = am.action_func(a)
        p = fn.args.args[0].arg
        for c in walk_no_nested(fn):
            if not (isinstance(c, ast.Call) and isinstance(c.func, ast.Attribute) and c.func.attr == "get"):
                continue
            q = dotted(c.func.value)
            if q not in (f"{p}._recv_pdu", f"{p}.to_provider_queue"):
                continue
            n_gets += 1
            nonblocking = bool(c.args) and isinstance(c.args[0], ast.Constant) and c.args[0].value is False or any(k.arg == "block" and isinstance(k.value, ast.Constant) and k.value.value is False for k in c.keywords)
            guarded = any(catches(h, "queue.Empty") for h in enclosing_handlers(c, fn))
            need_ev = PDU_EVENTS if q.endswith("_recv_pdu") else PRIM_EVENTS
            bad = sorted(rm.trig.get(a, set()) - need_ev)
            ok = guarded or (nonblocking and not bad)
            rep.check(ok, "queue-guard", f"fsm.{fn.name}", enclosing(c, (ast.stmt,)), f"{a} is also triggered by {bad}, for which nothing is queued on {q.split('.')[-1]}: the unguarded get(False) raises queue.Empty and kills the provider thread", mod=fsm, node=c)
            rep.check(nonblocking, "queue-guard", f"fsm.{fn.name}", f"{norm(c)} is non-blocking", "a blocking get() in an action would hang the provider thread", mod=fsm, node=c)
    rep.floor("queue gets in actions", n_gets, 20)
    # the producers: an event for a decoded PDU is queued together with the PDU; a primitive event only when a primitive is at the head of the queue
    from ..delegate import delegate as _delegate
    rep.rule("timer-run-state", "a timer the state machine has stopped stays stopped; a connect failure becomes Evt17 (C04's artim-run-state / connect-failure)")
    _delegate(repo, rep, tier, "C04", ("artim-run-state", "connect-failure"), "timer-run-state", "an event arrives in a state that has no transition for it (Evt18 in Sta6) or none arrives where one is required (Sta4): the provider thread dies with InvalidEventError / the exception, no A-ABORT is sent and the provider never returns to idle by itself")
    _delegate(repo, rep, tier, "C03", ("one-per-call",), "queue-guard", "an action's get(False) on _recv_pdu finds nothing (queue.Empty kills the provider thread) or a PDU left over from an earlier, event-less read")
    prp = repo.func("dul", "DULServiceProvider._process_recv_primitive")
    srcp = [norm(s) for s in walk_no_nested(prp) if isinstance(s, ast.stmt)]
    rep.check("primitive = self.to_provider_queue.queue[0]" in srcp and "self.event_queue.put(event)" in srcp, "queue-guard", "dul.DULServiceProvider._process_recv_primitive", "primitive event only for the primitive at the head of the queue (peek, no dequeue)", "the action dequeues the primitive itself", mod=dul, node=prp)

    # ---- survival ----------------------------------------------------------------------------
    check_survival(repo, rep, rm, "survival")
    # ---- state is per instance -------------------------------------------------------------------
    from ..lints import per_instance_state
    rep.rule("per-instance-state", "mutable state of the protocol objects is created per instance, never as a class attribute")
    per_instance_state(repo, rep, "per-instance-state", {"dul": ("DULServiceProvider",), "fsm": ("StateMachine",), "transport": ("AssociationSocket",), "timer": ("Timer",)})

    # ---- the loop is stopped only when idle ------------------------------------------------------
    from .c27 import check_stop_only_idle
    rep.rule("stop-only-idle", "the provider loop is told to stop only in Sta1 (after the closing actions ran), through kill_dul(), or in the catch-all's hard shutdown")
    check_stop_only_idle(repo, rep, "stop-only-idle")
    check_user_requests(repo, rep)

def check_survival(repo, rep, rm, rule):
    dul = rm.dul
    fsm = rm.am.mod
    guarded, dcall = rm.decode_guarded()
    rep.check(guarded, rule, "dul.DULServiceProvider._read_pdu_data", "self._decode_pdu(..) inside try/except Exception -> Evt19; return", "a PDU that cannot be decoded must be classified as Evt19, not raise", mod=dul, node=dcall)
    pre, pnode = rm.prevalidated()
    apc = rm.action_pdu_classes()
    rep.floor("actions converting a received PDU", len(apc), 9)
    n_sites = 0
    seen = set()
    pruned = 0
    for a, classes in apc.items():
        fn = rm.am.action_func(a)
        for cname in classes:
            for r in rm.to_primitive_escapes(cname):
                if r["exc"] in PRUNED_EXC:
                    pruned += 1
                    continue
                key = (cname, r["func"].fq, norm(r["site"]))
                if key in seen:
                    continue
                seen.add(key)
                n_sites += 1
                site_txt = f"{cname}.to_primitive -> {' > '.join(p.split('.', 1)[1] if '.' in p else p for p in r['path'][1:])}: raise {r['exc']} if {r['guard'] or 'always'}"
                ok = cname in pre and guarded
                rep.check(ok, rule, f"fsm.{fn.name}", site_txt, f"{a} converts a received {cname} with to_primitive(); that can raise {r['exc']} on values the peer controls ({r['guard']}); nothing catches it between the action and the thread's top: the provider thread dies. It is harmless only if the same conversion already ran inside the Evt19 guard of _read_pdu_data", mod=r["func"].mod, node=r["site"])
    rep.counters["raise sites on the to_primitive paths (non-TypeError)"] = n_sites
    rep.counters["pruned TypeError raise sites"] = pruned
    rep.extra["prevalidated_pdu_classes"] = sorted(pre)
    rep.extra["unresolved_calls_in_escape_analysis"] = dict(sorted(rm.esc.unresolved.items(), key=lambda x: -x[1])[:25])
    rep.extra["functions_visited_by_escape_analysis"] = len(rm.esc.visited_funcs)
    if n_sites < 8:
        from ..loader import AnalysisError as _AE
        raise _AE(f"escape analysis found only {n_sites} raise sites on the receive path (floor 8): resolution broke")
    # DIMSE decoding runs inside DT-2 / AR-6
    dm = repo.mod("dimse")
    rp = repo.func("dimse", "DIMSEServiceProvider.receive_primitive")
    from ..escape import enclosing_handlers, catches
    for c in [x for x in walk_no_nested(rp) if isinstance(x, ast.Call) and isinstance(x.func, ast.Attribute) and x.func.attr in ("decode_msg", "message_to_primitive")]:
        hs = enclosing_handlers(c, rp)
        ok = any(catches(h, "Exception") and ("Exception" in h or "BaseException" in h) for h in hs)
        tr = enclosing(c, (ast.Try,))
        evt19 = tr is not None and any("event_queue.put('Evt19')" in norm(s) for h in tr.handlers for s in h.body) and any(isinstance(s, ast.Return) for h in tr.handlers for s in h.body)
        rep.check(ok and evt19, rule, "dimse.DIMSEServiceProvider.receive_primitive", enclosing(c, (ast.stmt,)), f"{c.func.attr}() runs on peer bytes inside DT-2/AR-6 (empty PDV -> IndexError on data[0]; unknown command field -> KeyError; missing element -> AttributeError); it must be inside try/except Exception -> Evt19", mod=dm, node=c)
    # the peer-indexed lookups themselves (enumerated by reading, must still exist: otherwise re-read)
    dmsg = repo.func("dimse_messages", "DIMSEMessage.decode_msg")
    srcd = " ".join(ast.unparse(s_) for s_ in body_nodoc(dmsg))
    # ... or the methods of the message decode_msg hands part of the work to
    dci = repo.mod("dimse_messages").classes.get("DIMSEMessage")
    for c_ in walk_no_nested(dmsg):
        if isinstance(c_, ast.Call) and isinstance(c_.func, ast.Attribute) and norm(c_.func.value) == "self" and dci is not None and c_.func.attr in dci.methods:
            srcd += " " + " ".join(ast.unparse(s_) for s_ in body_nodoc(dci.methods[c_.func.attr]))
    need_ = ["data[0]", "_MESSAGE_TYPES[", "self.command_set.CommandDataSetType"]
    for s in need_:
        if s not in srcd:
            rep.defer(f"decode_msg no longer contains the peer-indexed lookup {s!r}: re-read the DIMSE receive path")


def check_user_requests(repo: Repo, rep: Report) -> None:
    """Two requests the association code issues on the user's behalf are only defined in some states, and
    the code keeps them there with a guard of its own:
    * A-ABORT request (Evt15) - a second one meets Sta13, where Evt15 is undefined: the single-abort flag must
      be raised *before* the request is handed to the provider (and tested before that), so that an
      overlapping abort() from another thread (a DIMSE timeout in the user thread, a network timeout in the
      reactor) finds it set;
    * A-RELEASE response (Evt14) - defined in Sta8 / Sta12 only: the reactor may answer a pending release
      request only while the association is still established (after an abort the provider is in Sta13)."""
    rep.rule("abort-once", "the single-abort flag is tested and raised before the A-ABORT request is issued")
    rep.rule("abort-not-after-release", "an A-ABORT request is issued only on paths where `self.is_released` was tested and found false")
    rep.rule("release-only-established", "the reactor answers a peer's release request only under `self.is_established`")
    am = repo.mod("association")
    ci = am.classes.get("Association")
    n = 0
    for name, fn in ci.methods.items():
        sends = [c for c in walk_no_nested(fn) if isinstance(c, ast.Call) and norm(c.func) == "self.acse.send_abort"]
        if not sends:
            continue
        fq = f"association.Association.{name}"
        cfg = CFG(fn, body=body_nodoc(fn), local_exc_only=True)
        sets = [nd for nd in cfg.nodes if nd.kind == "stmt" and isinstance(nd.ast, ast.Assign) and norm(nd.ast.targets[0]) == "self._sent_abort" and norm(nd.ast.value) == "True"]
        tests = [nd for nd in cfg.nodes if nd.kind == "test" and "self._sent_abort" in norm(nd.ast.test)]
        for c in sends:
            n += 1
            sn = cfg.nodes_containing(c)[0]
            ok_set = any(cfg.dominates(s_, sn) for s_ in sets)
            ok_test = any(cfg.dominates(t_, sn) for t_ in tests)
            rep.check(ok_set and ok_test, "abort-once", fq, enclosing(c, (ast.stmt,)), "the A-ABORT request is issued before the single-abort flag is raised (or without testing it): while the first request is on its way - EVT_ACSE_SENT handlers included - a second abort() passes the guard, the provider gets Evt15 twice, the second one in Sta13 where it is undefined, and the provider thread dies with the connection open", mod=am, node=c)
            # ... and never once the association has been released: the provider is then in Sta13 (or on its way
            # there behind the queued A-RELEASE response), where Evt15 is undefined
            def released_guard(nd, sn=sn):
                if nd.kind != "test" or not isinstance(nd.ast, ast.If):
                    return False
                t = nd.ast.test
                atoms = [norm(v) for v in t.values] if isinstance(t, ast.BoolOp) and isinstance(t.op, ast.Or) else [norm(t)]
                if "self.is_released" not in atoms:
                    return False
                tr_succ = [m_ for m_, lab in nd.succ if lab == "true"]
                return not any(m_ is sn or sn.id in cfg.reachable(m_) for m_ in tr_succ)

            ok_rel = any(released_guard(t_) and cfg.dominates(t_, sn) for t_ in cfg.nodes)
            rep.check(ok_rel, "abort-not-after-release", fq, enclosing(c, (ast.stmt,)), "the A-ABORT request can be issued although `self.is_released` is already true (the test is missing or weakened by a further condition): an abort() made while the answer to the peer's release request is still on its way is queued behind it, the provider moves to Sta13 and then meets Evt15, which is undefined there - the provider thread dies, the connection is never reported closed and EVT_ABORTED follows EVT_RELEASED", mod=am, node=c)
    rep.floor("A-ABORT request sites in Association", n, 1)
    rr = ci.methods.get("_run_reactor")
    m = 0
    for c in [c for c in walk_no_nested(rr) if isinstance(c, ast.Call) and norm(c.func) == "self.acse.send_release"]:
        m += 1
        g = enclosing(c, (ast.If,))
        ok = False
        while g is not None and not ok:
            atoms = [norm(v) for v in g.test.values] if isinstance(g.test, ast.BoolOp) and isinstance(g.test.op, ast.And) else [norm(g.test)]
            if "self.is_established" in atoms and any(x is c for s_ in g.body for x in ast.walk(s_)):
                ok = True
            g = enclosing(g, (ast.If,))
        rep.check(ok, "release-only-established", "association.Association._run_reactor", enclosing(c, (ast.stmt,)), "the reactor sends an A-RELEASE response without having tested that the association is still established: after a local abort (provider in Sta13) a release request that was already pending is answered, Evt14 is undefined in Sta13 and the provider thread dies", mod=am, node=c)
    rep.floor("release responses sent by the reactor", m, 1)



# who may stop the provider thread, and why that is safe (the state machine is in Sta1 there)
KILL_CALLERS = {
    "fsm": "the actions that return to Sta1 (checked path by path above)",
    "acse.ACSE._negotiate_as_requestor": "after the answer to the association request was a reject / abort / anything but an accept: the action that delivered it already returned to Sta1",
    "dul.DULServiceProvider.stop_dul": "sets the flag itself, under `current_state == 'Sta1'`",
    "dul.DULServiceProvider.kill_dul": "the setter",
    "dul.DULServiceProvider.run_reactor": "an exception in the reactor ends the thread",
    "dul.DULServiceProvider.__init__": "initialisation",
}


def check_kill_callers(repo, rep, rule: str) -> None:
    """The provider thread is stopped only when the state machine is idle: by the actions that return to Sta1, by
    stop_dul() under its Sta1 test, and by the requestor's negotiation once the peer's answer put the machine back
    in Sta1. Anyone else calling kill_dul() (or setting _kill_thread) - a wait for Sta1 that gives up after a
    timeout, say - stops the provider with PDUs still queued to send: a release request the reactor has just
    answered is never answered on the wire."""
    from .c27 import pkg_modules

    n = 0
    for short, m in pkg_modules(repo):
        if short.startswith(("apps.", "tests.", "benchmarks.")):
            continue
        for x in ast.walk(m.tree):
            site = None
            if isinstance(x, ast.Call) and isinstance(x.func, ast.Attribute) and x.func.attr == "kill_dul":
                site = x
            elif isinstance(x, ast.Assign) and any(isinstance(t, ast.Attribute) and t.attr == "_kill_thread" for t in x.targets):
                site = x
            if site is None:
                continue
            n += 1
            q = f"{short}.{qualname(site)}"
            ok = short == "fsm" or q in KILL_CALLERS
            rep.check(ok, rule, q, enclosing(site, (ast.stmt,)) or site, f"`{norm(site)[:50]}` stops the provider thread from a place that does not know the state machine is in Sta1 (allowed: {sorted(KILL_CALLERS)}): PDUs still queued to send - the A-RELEASE-RP the reactor has just issued, an A-ABORT - are dropped with the thread, the peer gets neither", mod=m, node=site)
    rep.floor("kill_dul() / _kill_thread sites", n, 10)
