"""C19 - requests on presentation contexts that were not accepted never reach a handler."""

from __future__ import annotations

import ast

from ..cfg import CFG, calls_at, typestate
from ..loader import AnalysisError, Repo, body_nodoc, dotted, norm, parent, walk_no_nested, enclosing, qualname, strip_cast
from ..report import Report
from .c26 import event_kinds

LEVEL = "other"
EXPLANATION = (
    "Who-may-call + dominance. The DIMSE intervention events (EVT_C_*/EVT_N_*, read from events.py) are "
    "triggered in exactly two places: service-class SCP implementations and Association._c_store_scp. "
    "(scp-entry) every function of service_class.py that triggers one is reachable only through "
    "<service class>.SCP(), and the package calls .SCP() only from Association._serve_request; there "
    "the call is dominated by a lookup of the function's own context_id parameter in _accepted_cx whose "
    "miss branch leaves without calling SCP, triggering or sending a DIMSE message, and the context "
    "handed to SCP is the lookup's result. (id-flow) every caller of _serve_request passes the context "
    "id that came off the queue / out of the decoded message together with that message. "
    "(store-subop) _c_store_scp's trigger is dominated by a test of the request's own _context_id "
    "against _accepted_cx whose miss branch leaves without trigger or send_msg. (id-origin) "
    "_context_id / context_id of a received message has one writer each, fed by the PDV's context id. "
    "Decides the property for every arriving request because a handler can only be reached through the "
    "enumerated entries. Not decided: what abort() then does on the wire."
    ' Fourth session: (id-flow) only the reader that decoded a message puts it on msg_queue; (accepted-table) the partition evaluation of C11.'
    " Sixth round: (no-stale-request) borrows C15's message-reset; (accepted-table) the public accepted / rejected views are evaluated on contexts that differ only in their ID."
)


def miss_branch_ok(stmts) -> tuple[bool, str]:
    """the miss branch must leave the function and must not answer / hand over the request"""
    bad = []
    for s in stmts:
        for c in ast.walk(s):
            if isinstance(c, ast.Call):
                n = dotted(c.func) or ""
                if n.endswith("send_msg") or n.endswith(".trigger") or n.endswith(".SCP") or n.endswith("_get_valid_context"):
                    bad.append(n)
    leaves = bool(stmts) and isinstance(stmts[-1], (ast.Return, ast.Raise))
    return (leaves and not bad), (f"calls {bad}" if bad else "does not leave the function")


def accepted_lookup(fn: ast.FunctionDef, id_exprs: set[str]):
    """find `try: v = self._accepted_cx[ID] except KeyError: <miss>` or `if ID not in self._accepted_cx: <miss>`
    -> list of (node, kind, bound name or None, miss statements)"""
    out = []
    for n in walk_no_nested(fn):
        if isinstance(n, ast.Try):
            for s in n.body:
                if isinstance(s, ast.Assign) and isinstance(strip_cast(s.value), ast.Subscript):
                    sub = strip_cast(s.value)
                    if norm(sub.value) == "self._accepted_cx" and norm(strip_cast(sub.slice)) in id_exprs:
                        hs = [h for h in n.handlers if h.type is not None and ("KeyError" in norm(h.type) or "LookupError" in norm(h.type) or norm(h.type) in ("Exception",))]
                        if hs:
                            out.append((n, "try", norm(s.targets[0]), hs[0].body))
        if isinstance(n, ast.If):
            t = n.test
            if isinstance(t, ast.Compare) and len(t.ops) == 1 and isinstance(t.ops[0], ast.NotIn) and norm(strip_cast(t.left)) in id_exprs and norm(t.comparators[0]) in ("self._accepted_cx", "self._accepted_cx.keys()"):
                out.append((n, "if", None, n.body))
    return out


def run(repo: Repo, rep: Report, tier: str) -> None:
    rep.rule("scp-entry", "service-class handlers are reachable only via .SCP(), called only from _serve_request behind an _accepted_cx lookup of the message's own context id")
    rep.rule("id-flow", "callers of _serve_request pass the context id that arrived with the message")
    rep.rule("store-subop", "_c_store_scp tests the request's own context id against _accepted_cx before the handler / any response")
    rep.rule("id-origin", "a received message's context id has a single writer fed by the PDV's presentation context id")
    kinds = event_kinds(repo)
    dimse_events = {k for k, v in kinds.items() if v == "InterventionEvent" and (k.startswith("EVT_C_") or k.startswith("EVT_N_"))}
    rep.floor("DIMSE intervention events", len(dimse_events), 11)

    # ---- enumerate the trigger sites ---------------------------------------------------
    sites = []
    for mname, m in sorted(repo.modules.items()):
        short = mname.replace("pynetdicom.", "")
        if short.startswith(("apps.", "tests.", "benchmarks.")) or short == "events":
            continue
        for c in ast.walk(m.tree):
            if isinstance(c, ast.Call) and (dotted(c.func) or "") in ("evt.trigger", "trigger") and len(c.args) >= 2:
                en = (dotted(c.args[1]) or "").split(".")[-1]
                if en in dimse_events:
                    sites.append((short, m, c, en))
    rep.floor("DIMSE handler trigger sites", len(sites), 13)
    sc = repo.mod("service_class")
    am = repo.mod("association")
    trig_funcs = {}
    for short, m, c, en in sites:
        fn = enclosing(c, (ast.FunctionDef,))
        q = qualname(c)
        if short.startswith("service_class"):
            trig_funcs[q] = fn
        elif short == "association" and q == "Association._c_store_scp":
            pass
        else:
            rep.fail("scp-entry", f"{short}.{q}", enclosing(c, (ast.stmt,)), f"{en} is triggered from a function that is neither a service-class SCP implementation nor _c_store_scp: nothing guarantees the request's context was accepted", mod=m, node=c)

    # ---- service_class: reachable only through SCP ---------------------------------------
    # call graph inside service_class.py by method name (self.<name>(...))
    callers: dict[str, set[str]] = {}
    family = [m for n_, m in sorted(repo.modules.items()) if n_.replace("pynetdicom.", "").startswith("service_class")]
    rep.floor("service class modules", len(family), 2)
    for fm in family:
        for n in ast.walk(fm.tree):
            if isinstance(n, ast.Call) and isinstance(n.func, ast.Attribute) and isinstance(n.func.value, ast.Name) and n.func.value.id == "self":
                callers.setdefault(n.func.attr, set()).add(qualname(n))
    entry_ok = True
    for q, fn in sorted(trig_funcs.items()):
        seen, todo = set(), [q]
        roots = set()
        while todo:
            cur = todo.pop()
            if cur in seen:
                continue
            seen.add(cur)
            name = cur.split(".")[-1]
            if name == "SCP":
                roots.add(cur)
                continue
            cs = callers.get(name, set())
            if not cs:
                roots.add(cur)
            todo.extend(cs)
        bad = sorted(r for r in roots if r.split(".")[-1] != "SCP")
        rep.check(not bad, "scp-entry", f"service_class.{q}", f"reached from {sorted(roots)}", f"a handler-triggering method has an entry other than SCP(): {bad}", mod=sc, node=fn)
        entry_ok = entry_ok and not bad
    # the helper methods must not be called from outside service_class.py
    helper_names = {q.split(".")[-1] for q in trig_funcs if q.split(".")[-1] != "SCP"}
    for mname, m in sorted(repo.modules.items()):
        short = mname.replace("pynetdicom.", "")
        if short.startswith(("apps.", "tests.", "benchmarks.", "service_class")):
            continue
        for n in ast.walk(m.tree):
            if isinstance(n, ast.Call) and isinstance(n.func, ast.Attribute) and n.func.attr in helper_names:
                rep.fail("scp-entry", f"{short}.{qualname(n)}", enclosing(n, (ast.stmt,)), f"{n.func.attr}() is a handler-triggering service-class method called from outside service_class.py, bypassing _serve_request's context check", mod=m, node=n)
    # .SCP( call sites in the package
    scp_calls = []
    for mname, m in sorted(repo.modules.items()):
        short = mname.replace("pynetdicom.", "")
        if short.startswith(("apps.", "tests.", "benchmarks.")):
            continue
        for n in ast.walk(m.tree):
            if isinstance(n, ast.Call) and isinstance(n.func, ast.Attribute) and n.func.attr == "SCP":
                scp_calls.append((short, m, n))
    rep.floor(".SCP() call sites", len(scp_calls), 1)
    # a method value (Thread(target=x.SCP), functools.partial(x.SCP, ..)) is a call site too
    for mname, m in sorted(repo.modules.items()):
        short = mname.replace("pynetdicom.", "")
        if short.startswith(("apps.", "tests.", "benchmarks.")):
            continue
        for n in ast.walk(m.tree):
            if isinstance(n, ast.Attribute) and n.attr == "SCP" and isinstance(n.ctx, ast.Load) and not (isinstance(parent(n), ast.Call) and parent(n).func is n):
                rep.fail("scp-entry", f"{short}.{qualname(n)}", enclosing(n, (ast.stmt,)) or n, "service_class.SCP is taken as a method value (thread target / partial): it will run outside _serve_request's accepted-context check", mod=m, node=n)
    for short, m, n in scp_calls:
        q = f"{short}.{qualname(n)}"
        inside_sc = short.startswith("service_class") and qualname(n).split(".")[-1] == "SCP" and isinstance(n.func.value, ast.Call) and dotted(n.func.value.func) == "super"
        rep.check(q == "association.Association._serve_request" or inside_sc, "scp-entry", q, enclosing(n, (ast.stmt,)), "service_class.SCP() is called from somewhere other than _serve_request: that caller must prove the context was accepted itself", mod=m, node=n)

    # ---- _serve_request --------------------------------------------------------------------
    sr = repo.func("association", "Association._serve_request")
    fq = "association.Association._serve_request"
    params = [a.arg for a in sr.args.args]
    rep.need(len(params) == 3, f"{fq}: signature changed {params}")
    msg_p, id_p = params[1], params[2]
    cfg = CFG(sr, body=body_nodoc(sr), local_exc_only=True)
    scpn = [n for n in cfg.nodes if n.kind == "stmt" and any((dotted(c.func) or "").endswith(".SCP") for c in calls_at(n))]
    rep.need(len(scpn) == 1, f"{fq}: SCP call not found")
    scall = [c for c in calls_at(scpn[0]) if (dotted(c.func) or "").endswith(".SCP")][0]
    lk = accepted_lookup(sr, {id_p})
    rep.check(len(lk) >= 1, "scp-entry", fq, f"lookup of {id_p} in self._accepted_cx", "the request's context id is not looked up in the accepted contexts before the service class runs: a request on a rejected / never proposed id reaches the handler", mod=am, node=sr)
    for node, kind, bound, miss in lk:
        ok, why = miss_branch_ok(miss)
        rep.check(ok, "scp-entry", fq, f"miss branch of the _accepted_cx lookup: {[norm(s)[:40] for s in miss]}", f"when the context id is unknown the request must be dropped (abort/return), but the branch {why}", mod=am, node=node)
        cn = cfg.node_of(node) or next((n for n in cfg.nodes if n.ast is node), None)
        if kind == "try":
            # the assignment inside the try body
            an = [n for n in cfg.nodes if n.kind == "stmt" and isinstance(n.ast, ast.Assign) and norm(n.ast.targets[0]) == bound and "_accepted_cx" in norm(n.ast.value)]
            dom = bool(an) and cfg.dominates(an[0], scpn[0])
            rep.check(dom, "scp-entry", fq, f"{bound} = self._accepted_cx[{id_p}] dominates service_class.SCP(..)", "a path reaches SCP() without passing the accepted-context lookup", mod=am, node=scall)
            okarg = len(scall.args) == 2 and norm(scall.args[0]) == msg_p and norm(scall.args[1]) == bound
            rep.check(okarg, "scp-entry", fq, scall, f"SCP must be given the message and the context found for its id ({bound}), not another context", mod=am, node=scall)
            # nothing rebinds the context between the lookup and the call
            reb = [s for s in walk_no_nested(sr) if isinstance(s, ast.Assign) and any(norm(t) == bound for t in s.targets) and "_accepted_cx" not in norm(s.value)]
            rep.check(not reb, "scp-entry", fq, f"{bound} bound only by the lookup", "the context passed to SCP is replaced after the lookup", mod=am, node=reb[0] if reb else sr)
        else:
            dom = cn is not None and cfg.dominates(cn, scpn[0])
            rep.check(dom, "scp-entry", fq, f"`{norm(node.test)}` dominates service_class.SCP(..)", "a path reaches SCP() without passing the accepted-context test", mod=am, node=scall)
    # fallback idioms that defeat the lookup: .get(id, default) / `or` / accepted_contexts[0]
    for n in walk_no_nested(sr):
        if isinstance(n, ast.Call) and norm(n.func) == "self._accepted_cx.get":
            rep.fail("scp-entry", fq, enclosing(n, (ast.stmt,)), "_accepted_cx.get(..) with a fallback replaces the must-exist lookup", mod=am, node=n)

    # ---- id-flow: callers of _serve_request ----------------------------------------------------
    n_callers = 0
    for mname, m in sorted(repo.modules.items()):
        short = mname.replace("pynetdicom.", "")
        if short.startswith(("apps.", "tests.", "benchmarks.")):
            continue
        for n in ast.walk(m.tree):
            if isinstance(n, ast.Call) and isinstance(n.func, ast.Attribute) and n.func.attr == "_serve_request":
                n_callers += 1
                fn = enclosing(n, (ast.FunctionDef,))
                q = f"{short}.{qualname(n)}"
                a_msg, a_id = norm(strip_cast(n.args[0])), norm(strip_cast(n.args[1]))
                # on every path to the call both are bound by one and the same `id, msg = ..get_msg()` (reaching definitions)
                ok = _paired_from_get_msg(fn, n, a_msg, a_id)
                rep.check(ok, "id-flow", q, enclosing(n, (ast.stmt,)), "the message and the context id handed to _serve_request must come from the same get_msg() result, in (context id, message) order", mod=m, node=n)
            # thread target form: Thread(target=make_target(self.assoc._serve_request), args=(prim, cid))
            if isinstance(n, ast.Call) and (dotted(n.func) or "").endswith("Thread"):
                tgt = next((k.value for k in n.keywords if k.arg == "target"), None)
                args = next((k.value for k in n.keywords if k.arg == "args"), None)
                if tgt is not None and "_serve_request" in norm(tgt):
                    n_callers += 1
                    fn = enclosing(n, (ast.FunctionDef,))
                    q = f"{short}.{qualname(n)}"
                    ok = isinstance(args, ast.Tuple) and len(args.elts) == 2
                    if ok:
                        a_msg, a_id = norm(strip_cast(args.elts[0])), norm(strip_cast(args.elts[1]))
                        defs_id = [s for s in walk_no_nested(fn) if isinstance(s, ast.Assign) and norm(s.targets[0]) == a_id]
                        defs_m = [s for s in walk_no_nested(fn) if isinstance(s, ast.Assign) and norm(s.targets[0]) == a_msg]
                        ok = len(defs_id) == 1 and norm(strip_cast(defs_id[0].value)) == "self.message.context_id" and len(defs_m) == 1 and norm(defs_m[0].value) == "self.message.message_to_primitive()"
                    rep.check(ok, "id-flow", q, enclosing(n, (ast.stmt,)), "the primitive and the context id given to the _serve_request thread must both come from the message just decoded", mod=m, node=n)
    rep.counters["callers of _serve_request"] = n_callers
    if n_callers < 2:
        rep.defer(f"callers of _serve_request = {n_callers} < 2 confirmed by hand (reactor loop, N-EVENT-REPORT thread): re-read how requests reach the service classes")
    # msg_queue.put pairs the same two values
    rp = repo.func("dimse", "DIMSEServiceProvider.receive_primitive")
    dm = repo.mod("dimse")
    puts = [c for c in walk_no_nested(rp) if isinstance(c, ast.Call) and dotted(c.func) == "self.msg_queue.put"]
    for c in puts:
        t = c.args[0]
        ok = isinstance(t, ast.Tuple) and len(t.elts) == 2 and norm(strip_cast(t.elts[0])) == "context_id" and norm(strip_cast(t.elts[1])) == "d_primitive"
        rep.check(ok, "id-flow", "dimse.DIMSEServiceProvider.receive_primitive", enclosing(c, (ast.stmt,)), "the queue item must be (context id of the decoded message, its primitive)", mod=dm, node=c)
    rep.floor("msg_queue.put sites", len(puts), 1)
    # ... and nobody else queues a message: an item put back (or forwarded) from elsewhere pairs a primitive with
    # whatever context id is at hand there, not with the id it arrived on
    from .c27 import pkg_modules as _pkg

    n_put = 0
    for short, m in _pkg(repo):
        for c in ast.walk(m.tree):
            if not (isinstance(c, ast.Call) and isinstance(c.func, ast.Attribute) and c.func.attr in ("put", "put_nowait") and norm(c.func.value).split(".")[-1] == "msg_queue"):
                continue
            n_put += 1
            q = f"{short}.{qualname(c)}"
            t = c.args[0] if c.args else None
            sentinel = isinstance(t, ast.Tuple) and all(isinstance(e_, ast.Constant) and e_.value is None for e_ in t.elts)
            rep.check(q == "dimse.DIMSEServiceProvider.receive_primitive" or sentinel, "id-flow", q, enclosing(c, (ast.stmt,)), "a DIMSE message is put on the queue outside the reader that decoded it: the context id it is paired with is not the one it arrived on - a request received on a rejected, never proposed or invalid context id that is re-queued under an accepted one is served by the handler instead of aborting the association", mod=m, node=c)
    rep.floor("msg_queue writers in the package", n_put, 1)
    check_accepted_view_complete(repo, rep, "accepted-table")
    from ..delegate import delegate as _delegate19
    rep.rule("no-stale-request", "a completed request is dropped from the reassembly state on every exit (C15's message-reset): nothing the peer sends later can complete it a second time")
    _delegate19(repo, rep, tier, "C15", ("message-reset",), "no-stale-request", "the decoded request - with the accepted context ID it arrived on - stays in the provider: a bare data-set PDV on a rejected, never proposed or invalid context ID later completes it again and the request is passed to the handler a second time instead of aborting the association")

    # ---- store sub-operation -----------------------------------------------------------------------
    cs = repo.func("association", "Association._c_store_scp")
    fqc = "association.Association._c_store_scp"
    req_p = cs.args.args[1].arg
    cfgc = CFG(cs, body=body_nodoc(cs), local_exc_only=True)
    trg = [n for n in cfgc.nodes if n.kind == "stmt" and any((dotted(c.func) or "") == "evt.trigger" for c in calls_at(n))]
    rep.need(len(trg) == 1, f"{fqc}: trigger site not found")
    lkc = accepted_lookup(cs, {f"{req_p}._context_id"})
    if not lkc:
        rep.fail("store-subop", fqc, f"no test of {req_p}._context_id against self._accepted_cx", "the C-STORE sub-operation request's own context id is never checked against the accepted contexts (the _get_valid_context fallback searches *all* accepted contexts when the id is unknown): a request on a rejected / never proposed id is handed to the EVT_C_STORE handler and answered on another context", mod=am, node=cs)
    for node, kind, bound, miss in lkc:
        ok, why = miss_branch_ok(miss)
        rep.check(ok, "store-subop", fqc, f"miss branch: {[norm(s)[:40] for s in miss]}", f"when the context id is unknown the request must be dropped, but the branch {why}", mod=am, node=node)
        cn = next((n for n in cfgc.nodes if n.ast is node), None)
        if kind == "try":
            cn = next((n for n in cfgc.nodes if n.kind == "stmt" and isinstance(n.ast, ast.Assign) and norm(n.ast.targets[0]) == bound), None)
        rep.check(cn is not None and cfgc.dominates(cn, trg[0]), "store-subop", fqc, "the accepted-context test dominates evt.trigger(EVT_C_STORE)", "a path reaches the handler without the test", mod=am, node=trg[0].ast)
        sends = [n for n in cfgc.nodes if n.kind == "stmt" and any((dotted(c.func) or "").endswith("send_msg") for c in calls_at(n))]
        for sn in sends:
            rep.check(cn is not None and cfgc.dominates(cn, sn), "store-subop", fqc, sn.ast, "a response can be sent without the accepted-context test: the request is answered as if it were valid", mod=am, node=sn.ast)
    gvc = [c for c in walk_no_nested(cs) if isinstance(c, ast.Call) and norm(c.func) == "self._get_valid_context"]
    for c in gvc:
        kw = {k.arg: norm(k.value) for k in c.keywords}
        rep.check(kw.get("context_id") == f"{req_p}._context_id", "store-subop", fqc, c, "the context is selected without the request's context id", mod=am, node=c)

    # ---- id origin -----------------------------------------------------------------------------------------
    msgs = repo.mod("dimse_messages")
    w_prim = []
    for mname, m in sorted(repo.modules.items()):
        short = mname.replace("pynetdicom.", "")
        if not short.startswith(("dimse", "association", "service_class")):
            continue
        for n in ast.walk(m.tree):
            if isinstance(n, ast.Attribute) and isinstance(n.ctx, ast.Store) and n.attr == "_context_id":
                st = enclosing(n, (ast.stmt,))
                if isinstance(st, ast.AnnAssign) or (isinstance(st, ast.Assign) and isinstance(st.value, ast.Constant)):
                    continue  # declarations / None defaults
                w_prim.append((short, m, st))
    okp = len(w_prim) == 1 and w_prim[0][0] == "dimse_messages" and norm(w_prim[0][2].value) == "self.context_id" and qualname(w_prim[0][2]).endswith("message_to_primitive")
    rep.check(okp, "id-origin", "dimse_messages.DIMSEMessage.message_to_primitive", f"_context_id writers: {[norm(s_) for _, _, s_ in w_prim]}", "a received primitive's _context_id must be the decoded message's context id, written once in message_to_primitive", mod=msgs, node=w_prim[0][2] if w_prim else msgs.tree)
    dmf = repo.func("dimse_messages", "DIMSEMessage.decode_msg")
    w_ctx = [s_ for s_ in walk_no_nested(dmf) if isinstance(s_, ast.Assign) and norm(s_.targets[0]) == "self.context_id"]
    loops = [f for f in walk_no_nested(dmf) if isinstance(f, ast.For) and norm(f.iter).endswith(".presentation_data_value_list")]
    okc = len(w_ctx) == 1 and len(loops) == 1 and isinstance(loops[0].target, ast.Tuple) and norm(loops[0].target.elts[0]) == norm(w_ctx[0].value) and any(x is w_ctx[0] for x in ast.walk(loops[0]))
    rep.check(okc, "id-origin", "dimse_messages.DIMSEMessage.decode_msg", f"context_id writers: {[norm(s_) for s_ in w_ctx]}", "the message's context id must be the one of the received PDV (first element of the PDV tuple), set in one place", mod=msgs, node=w_ctx[0] if w_ctx else dmf)
    if w_ctx:
        # ... and it is the id of the PDV that carries the *command set*: the command names the request, and it
        # is that PDV's context the accepted-context guards are about. A writer outside the command-fragment
        # branch lets a later data-set fragment sent under another (accepted) id overwrite it.
        conds = []
        p_ = parent(w_ctx[0])
        node_ = w_ctx[0]
        while p_ is not None and not isinstance(p_, (ast.FunctionDef, ast.For, ast.While)):
            if isinstance(p_, ast.If) and node_ in p_.body:
                conds.append(norm(p_.test).replace(" ", ""))
            node_, p_ = p_, parent(p_)
        under_cmd = any(c in ("control_header_byte&1", "control_header_byte&3==3", "control_header_byte&1==1", "control_header_byte&1!=0") or "control_header_byte&1" in c for c in conds)
        rep.check(under_cmd, "id-origin", "dimse_messages.DIMSEMessage.decode_msg", w_ctx[0], "the message's context id is not taken from the PDV that carries the command set (the write is outside the `control_header_byte & 1` branch): a request whose command set arrives under a rejected / unknown id and whose data-set fragments arrive under an accepted one ends up with the accepted id, passes the accepted-context guards and reaches the handler", mod=msgs, node=w_ctx[0])
    rep.extra["trigger_sites"] = [f"{s}.{qualname(c)}:{en}" for s, m, c, en in sites]
    # ---- the accepted-context table itself is what was negotiated -----------------------------------------
    from ..delegate import delegate
    rep.rule("accepted-table", "the requestor's table of accepted contexts holds exactly the contexts the peer accepted (C11's requestor-view and iteration-independent rules)")
    delegate(repo, rep, tier, "C11", ("requestor-view", "iteration-independent"), "accepted-table", "a context the peer never accepted (omitted from its A-ASSOCIATE-AC, or rejected) ends up in the accepted table: a request the peer later sends on that id passes the accepted-context guard and reaches the handler")
    rep.rule("guarded-lookup", "every lookup in the accepted-context table by a peer-chosen id expects the miss (try / except KeyError or a membership test)")
    rep.floor("accepted-context lookups", check_guarded_lookup(repo, rep), 3)
    # ---- state is per instance -------------------------------------------------------------------
    from ..lints import per_instance_state
    rep.rule("per-instance-state", "mutable state of the protocol objects is created per instance, never as a class attribute")
    per_instance_state(repo, rep, "per-instance-state", {"association": ("Association",), "dimse": ("DIMSEServiceProvider",), "dimse_messages": ("DIMSEMessage",)})



def _paired_from_get_msg(fn: ast.AST, call: ast.Call, a_msg: str, a_id: str) -> bool:
    """reaching definitions at `call`: the last binding of the message name and of the id name are the same
    statement, a tuple assignment `<id>, <msg> = <..>.get_msg(..)`, on every path"""
    cfg = CFG(fn, body=body_nodoc(fn), local_exc_only=True)

    def binds(a):
        out = set()
        tg = a.targets if isinstance(a, ast.Assign) else [a.target] if isinstance(a, (ast.AnnAssign, ast.AugAssign)) else []
        for t in tg:
            for x in ast.walk(t):
                if isinstance(x, (ast.Name, ast.Attribute)) and isinstance(x.ctx, ast.Store):
                    out.add(norm(x))
        return out

    def transfer(n, st):
        dm, di = st
        if n.kind == "stmt" and isinstance(n.ast, (ast.Assign, ast.AnnAssign, ast.AugAssign)):
            b = binds(n.ast)
            good = isinstance(n.ast, ast.Assign) and isinstance(n.ast.targets[0], ast.Tuple) and isinstance(n.ast.value, ast.Call) and (dotted(n.ast.value.func) or "").endswith("get_msg") and [norm(e) for e in n.ast.targets[0].elts] == [a_id, a_msg]
            tag = n.id if good else -1 - n.id
            nd = (tag if a_msg in b else dm, tag if a_id in b else di)
            if nd != st:
                return [(nd, {l for _, l in n.succ if l != "exc"}), (st, {"exc"})]
        if n.kind == "iter":
            b = {norm(x) for x in ast.walk(n.ast.target) if isinstance(x, ast.Name)}
            if a_msg in b or a_id in b:
                return [((-1 - n.id if a_msg in b else dm, -1 - n.id if a_id in b else di), None)]
        return [(st, None)]

    ins, _ = typestate(cfg, (None, None), transfer)
    site = [n for n in cfg.nodes if n.kind == "stmt" and call in calls_at(n)]
    if len(site) != 1:
        return False
    sts = ins.get(site[0].id, set())
    return bool(sts) and all(dm is not None and dm == di and dm >= 0 for dm, di in sts)


LOOKUP_ALLOWED = {
    ("dimse_messages", "DIMSEMessage.decode_msg"): "runs inside DIMSEServiceProvider.receive_primitive's try/except (C02 escape rule): a KeyError becomes Evt19 -> A-ABORT",
}


def check_guarded_lookup(repo: Repo, rep: Report, rule: str = "guarded-lookup") -> int:
    """The table of accepted contexts is indexed with a context id the peer chose. Every such lookup must
    expect the miss (try / except KeyError, or a membership test before it): an unguarded one raises KeyError in
    the association's reactor thread, which ends that thread - the association keeps its socket and its
    'established' flag but no longer serves anything, and it drops out of the AE's count of active
    associations."""
    n = 0
    for mname, m in sorted(repo.modules.items()):
        short = mname.replace("pynetdicom.", "")
        if short.startswith(("apps", "tests", "benchmarks")):
            continue
        for x in ast.walk(m.tree):
            if not (isinstance(x, ast.Subscript) and isinstance(x.ctx, ast.Load) and isinstance(x.value, ast.Attribute) and x.value.attr == "_accepted_cx"):
                continue
            n += 1
            q = qualname(x)
            fq = f"{short}.{q}"
            key = norm(x.slice)
            ok, how = False, ""
            t = enclosing(x, (ast.Try,))
            while t is not None and not ok:
                if any(x is y for s_ in t.body for y in ast.walk(s_)) and any(h.type is None or any(k in norm(h.type) for k in ("KeyError", "LookupError", "Exception")) for h in t.handlers):
                    ok, how = True, "inside try / except KeyError"
                t = enclosing(t, (ast.Try,))
            g = enclosing(x, (ast.If,))
            while g is not None and not ok:
                tt = norm(g.test)
                if tt.replace(" ", "") in (f"{key}in{norm(x.value)}".replace(" ", ""),) and any(x is y for s_ in g.body for y in ast.walk(s_)):
                    ok, how = True, f"under `if {tt}`"
                g = enclosing(g, (ast.If,))
            if not ok:
                # a guard clause before it: `if key not in table: ... return` earlier in a block that contains the lookup
                fn_ = enclosing(x, (ast.FunctionDef,))
                want_t = f"{key}notin{norm(x.value)}".replace(" ", "")
                for blk_owner in ast.walk(fn_) if fn_ is not None else []:
                    for fld_ in ("body", "orelse", "finalbody"):
                        b_ = getattr(blk_owner, fld_, None)
                        if not isinstance(b_, list):
                            continue
                        idx_ = next((i_ for i_, s_ in enumerate(b_) if any(x is y for y in ast.walk(s_))), None)
                        if idx_ is None:
                            continue
                        for s_ in b_[:idx_]:
                            if isinstance(s_, ast.If) and norm(s_.test).replace(" ", "") == want_t and s_.body and isinstance(s_.body[-1], (ast.Return, ast.Raise, ast.Continue, ast.Break)):
                                ok, how = True, f"after the guard `if {norm(s_.test)}: ... {type(s_.body[-1]).__name__.lower()}`"
            if not ok and (short, q) in LOOKUP_ALLOWED:
                ok, how = True, LOOKUP_ALLOWED[(short, q)]
            if ok:
                rep.ok(rule, f"{fq} :: {norm(x)}", how)
            else:
                rep.fail(rule, fq, enclosing(x, (ast.stmt,)) or x, f"`{norm(x)}` indexes the accepted-context table with an id that comes from the peer without expecting a miss: a message on a context id that was never accepted raises KeyError in the thread that serves the association, which ends it - the association stays 'established' with its socket open, serves nothing, and is no longer counted among the AE's active associations", mod=m, node=x)
    return n


def check_accepted_view_complete(repo, rep, rule: str) -> None:
    """The guards look requests up in Association._accepted_cx; the A-ASSOCIATE-AC the acceptor sends is built from
    the public accepted_contexts / rejected_contexts properties. Both must describe the same set: the getters are
    evaluated (sa/minipy.py) on a table holding contexts that differ only in their ID - every context of the
    table comes out, once, in ID order. A getter that merges 'equivalent' contexts leaves an ID out of the AC that
    stays accepted internally: the peer was never told it was accepted, yet a request on it is served."""
    from ..minipy import Interp, Obj, Raised, Unsupported

    rep.rule(rule, "accepted_contexts (in ID order) / rejected_contexts list every context of the internal table exactly once (evaluated with contexts that differ only in their ID)")
    am = repo.mod("association")
    ci = am.classes.get("Association")
    n = 0
    for prop, store in (("accepted_contexts", "_accepted_cx"), ("rejected_contexts", "_rejected_cx")):
        fn = ci.getters.get(prop) if ci is not None else None
        if fn is None:
            rep.defer(f"association.Association.{prop} getter vanished")
            continue
        fq = f"association.Association.{prop}"
        uses_dict = any(isinstance(c, ast.Attribute) and c.attr == "values" and norm(c.value) == f"self.{store}" for c in ast.walk(fn))

        def cx(i, ts=("1.2.840.10008.1.2.1",)):
            return Obj("PresentationContext", {"context_id": i, "abstract_syntax": "1.2.840.10008.5.1.4.1.1.2", "transfer_syntax": list(ts), "as_scu": True, "as_scp": False, "result": 0, "_as_scu": True, "_as_scp": False})

        ctxs = [cx(5), cx(1), cx(3), cx(7, ("1.2.840.10008.1.2",))]
        table = {c.attrs["context_id"]: c for c in ctxs} if uses_dict else list(ctxs)
        me = Obj("Association", {store: table})
        try:
            got = Interp({}).call_function(fn, {"self": me})
        except Unsupported as exc:
            rep.defer(f"{fq}: not evaluable with stand-ins ({exc})")
            continue
        except Raised as r:
            rep.fail(rule, fq, f"raises {r.kind}", "the getter raises on an ordinary table", mod=am, node=fn)
            continue
        n += 1
        ids = [c.attrs.get("context_id") for c in got] if isinstance(got, list) else None
        okv = ids == [1, 3, 5, 7] if prop == "accepted_contexts" else (ids is not None and sorted(ids) == [1, 3, 5, 7])
        rep.check(okv, rule, fq, f"table with IDs [5, 1, 3, 7] (1, 3, 5 identical apart from the ID) -> {ids}", f"the public view of the {store} table must list every context once, in ID order; it gives {ids}: the A-ASSOCIATE-AC built from it leaves a context out that the guards still treat as accepted - a request on an ID the peer was never told about is served", mod=am, node=fn)
    rep.floor("context table views evaluated", n, 1)
