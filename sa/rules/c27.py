"""C27 - event notifications form a well-formed history."""

from __future__ import annotations

import ast

from ..cfg import CFG, calls_at, path_summaries
from ..fsm_model import ActionModel
from ..loader import AnalysisError, Repo, body_nodoc, dotted, norm, parent, walk_no_nested, enclosing, qualname, strip_cast
from ..report import Report

LEVEL = "other"
EXPLANATION = (
    "Per-site pairing rules whose conjunction gives the history shape. (chained) do_action reports "
    "current_state = the machine's state and next_state = exactly the value it then hands to "
    "transition(), and only transition()/__init__ write the state, so each notified transition starts "
    "where the previous one ended. (close-once-last) EVT_CONN_CLOSE is triggered exactly once on every "
    "path of exactly the actions that return Sta1, and nowhere else; with C05's kill-on-idle that is "
    "'once and last'. (open-first) EVT_CONN_OPEN is triggered before the first state-machine event can "
    "be processed on both roles. (wire-match) EVT_PDU_SENT / EVT_DATA_SENT carry the object / bytes "
    "just handed to the socket and every socket write goes through those two places (one allow-listed "
    "exception: the emergency A-ABORT of run_reactor's internal-error handler); EVT_DATA_RECV / "
    "EVT_PDU_RECV carry the bytes just read and the PDU just decoded from them, and that PDU is the one "
    "queued. (established) every `is_established = True` is immediately followed by EVT_ESTABLISHED "
    "and vice versa, outside loops, once per negotiation function, and is never reachable after an "
    "EVT_RELEASED / EVT_ABORTED trigger of the same function. Not decided: cross-thread ordering of "
    "notifications (association thread vs provider thread)."
    " Third session: (provider-survives) borrowed from C05 (abort-once, abort-not-after-release, release-only-established) and C04 (artim-run-state): an undefined (event, state) pair kills the provider thread and with it the connection-close notification; wire-match accepts a memoryview / slice of the stream as 'the bytes written'."
    " Fifth round: (provider-survives) also borrows C03's tls-portable and short-is-closed and C01's evaluated decoders; the wire-match rule is structural over what is written from the stream."
    " Sixth round: (provider-survives) every exit of the association reactor passes kill(); borrows C24's reader-woken."
)


def trigger_calls(node, event: str):
    return [c for c in ast.walk(node) if isinstance(c, ast.Call) and (dotted(c.func) or "") in ("evt.trigger", "trigger") and len(c.args) >= 2 and (dotted(c.args[1]) or "").split(".")[-1] == event]


def attrs_of(call: ast.Call) -> dict[str, str]:
    if len(call.args) < 3 or not isinstance(call.args[2], ast.Dict):
        return {}
    return {k.value: norm(v) for k, v in zip(call.args[2].keys, call.args[2].values) if isinstance(k, ast.Constant)}


def pkg_modules(repo: Repo):
    for mname, m in sorted(repo.modules.items()):
        short = mname.replace("pynetdicom.", "")
        if short.startswith(("apps.", "tests.", "benchmarks.")):
            continue
        yield short, m


def run(repo: Repo, rep: Report, tier: str) -> None:
    rep.rule("chained", "EVT_FSM_TRANSITION reports the machine's current state and exactly the next state handed to transition(); only transition()/__init__ write the state")
    rep.rule("close-once-last", "EVT_CONN_CLOSE is triggered exactly once on every path of exactly the actions returning Sta1 and nowhere else")
    rep.rule("open-first", "EVT_CONN_OPEN precedes the first processed state-machine event on both roles")
    rep.rule("wire-match", "sent/received PDU and data notifications carry exactly what crossed the socket; no unannounced socket write")
    rep.rule("established", "is_established = True <-> EVT_ESTABLISHED, once per negotiation, never after EVT_RELEASED/EVT_ABORTED")
    fsm = repo.mod("fsm")
    da = repo.func("fsm", "StateMachine.do_action")
    fq = "fsm.StateMachine.do_action"

    # ---- chained ----------------------------------------------------------------------
    tcs = trigger_calls(da, "EVT_FSM_TRANSITION")
    rep.check(len(tcs) == 1, "chained", fq, f"{len(tcs)} EVT_FSM_TRANSITION trigger(s)", "each processed event is notified exactly once", mod=fsm, node=da)
    if tcs:
        a = attrs_of(tcs[0])
        nxt = [s for s in walk_no_nested(da) if isinstance(s, ast.Assign) and isinstance(s.value, ast.Call) and norm(s.value).startswith("action[1](")]
        rep.need(len(nxt) == 1, f"{fq}: the action call vanished")
        nv = norm(nxt[0].targets[0])
        rep.check(a.get("current_state") == "self.current_state", "chained", fq, f"current_state -> {a.get('current_state')}", "the notified starting state must be the machine's state before the transition", mod=fsm, node=tcs[0])
        rep.check(a.get("next_state") == nv, "chained", fq, f"next_state -> {a.get('next_state')}", f"the notified next state must be the value the action returned ({nv})", mod=fsm, node=tcs[0])
        rep.check(a.get("fsm_event") == da.args.args[1].arg and a.get("action") == "action_name", "chained", fq, f"fsm_event -> {a.get('fsm_event')}, action -> {a.get('action')}", "the notified event / action must be the ones processed", mod=fsm, node=tcs[0])
        cfg = CFG(da, body=body_nodoc(da), local_exc_only=True)
        tn = [n for n in cfg.nodes if n.kind == "stmt" and any(c is tcs[0] for c in calls_at(n))]
        trn = [n for n in cfg.nodes if n.kind == "stmt" and any(norm(c.func) == "self.transition" for c in calls_at(n))]
        ok = len(tn) == 1 and len(trn) == 1 and norm(trn[0].ast) == f"self.transition({nv})" and cfg.dominates(tn[0], trn[0])
        rep.check(ok, "chained", fq, f"self.transition({nv}) after the notification", "the machine must move to exactly the state it announced", mod=fsm, node=trn[0].ast if trn else da)
        # between the trigger and transition nothing rebinds next_state / current_state
        reb = [s for s in walk_no_nested(da) if isinstance(s, ast.Assign) and norm(s.targets[0]) in (nv, "self.current_state") and s is not nxt[0]]
        rep.check(not reb, "chained", fq, f"{nv} / current_state bound once", "the announced state is changed before it is applied", mod=fsm, node=reb[0] if reb else da)
    trf = repo.func("fsm", "StateMachine.transition")
    ws = [s for s in walk_no_nested(trf) if isinstance(s, ast.Assign) and norm(s.targets[0]) == "self.current_state"]
    rep.check(len(ws) == 1 and norm(ws[0].value) == trf.args.args[1].arg, "chained", "fsm.StateMachine.transition", ws[0] if ws else "self.current_state = state", "transition(state) must store exactly its argument", mod=fsm, node=trf)
    for short, m in pkg_modules(repo):
        for n in ast.walk(m.tree):
            if isinstance(n, ast.Attribute) and n.attr == "current_state" and isinstance(n.ctx, ast.Store):
                st_ = enclosing(n, (ast.stmt,))
                if isinstance(st_, ast.AnnAssign) and st_.value is None:
                    continue  # a bare annotation (events.Event declares its dynamic attributes)
                if short == "events":
                    continue  # Event.current_state is the notification's own attribute, not the machine's
                q = qualname(n)
                rep.check(short == "fsm" and q in ("StateMachine.transition", "StateMachine.__init__"), "chained", f"{short}.{q}", enclosing(n, (ast.stmt,)), "the machine's state is written outside transition(): the next notified transition no longer starts where the previous one ended", mod=m, node=n)

    # ---- close once and last -----------------------------------------------------------------
    am = ActionModel(repo)
    n_close = 0
    for a in sorted(am.actions):
        fn = am.action_func(a)
        paths = [p for p in path_summaries(fn, body=body_nodoc(fn), may_raise=lambda n: False) if not p.raised]
        for p in paths:
            cnt = sum(len(trigger_calls(s, "EVT_CONN_CLOSE")) for s in p.stmts if not isinstance(s, (ast.If, ast.While, ast.For, ast.Try, ast.With)))
            ret = norm(p.ret) if p.ret is not None else None
            to_idle = ret == "'Sta1'"
            if to_idle:
                n_close += 1
                rep.check(cnt == 1, "close-once-last", f"fsm.{fn.name}", f"path to Sta1 triggers EVT_CONN_CLOSE {cnt} time(s)", f"{a} returns to idle: the connection-closed notification must be emitted exactly once on this path", mod=fsm, node=fn)
            else:
                rep.check(cnt == 0, "close-once-last", f"fsm.{fn.name}", f"path to {ret} triggers EVT_CONN_CLOSE {cnt} time(s)", f"{a} does not close the connection on this path but announces it closed", mod=fsm, node=fn)
    rep.floor("action paths returning Sta1", n_close, 7)
    for short, m in pkg_modules(repo):
        for c in trigger_calls(m.tree, "EVT_CONN_CLOSE"):
            q = qualname(c)
            ok = short == "fsm" and q in {am.action_func(a).name for a in am.actions}
            rep.check(ok, "close-once-last", f"{short}.{q}", enclosing(c, (ast.stmt,)), "EVT_CONN_CLOSE is triggered outside the state-machine actions: it can fire twice or not last", mod=m, node=c)

    # ---- open first ------------------------------------------------------------------------------
    tr = repo.mod("transport")
    co = repo.func("transport", "AssociationSocket.connect")
    cfgc = CFG(co, body=body_nodoc(co), local_exc_only=True)
    opn = [n for n in cfgc.nodes if n.kind == "stmt" and any(c in trigger_calls(n.ast, "EVT_CONN_OPEN") for c in calls_at(n))]
    put = [n for n in cfgc.nodes if n.kind == "stmt" and any(norm(c.func).endswith("provider_queue.put") for c in calls_at(n)) and any(isinstance(s, ast.Assign) and norm(s.value) == "'Evt2'" for s in walk_no_nested(co))]
    evt2 = [n for n in cfgc.nodes if n.kind == "stmt" and norm(n.ast) == "primitive.result = 'Evt2'"]
    rep.need(len(opn) == 1 and len(evt2) == 1, "transport.connect: EVT_CONN_OPEN trigger / Evt2 not found")
    rep.check(cfgc.dominates(opn[0], evt2[0]), "open-first", "transport.AssociationSocket.connect", "EVT_CONN_OPEN before the connection-confirm event (Evt2) is queued", "the requestor's first state-machine transition after connecting must not be notified before connection-open", mod=tr, node=opn[0].ast)
    hd = repo.func("transport", "RequestHandler.handle")
    cfgh = CFG(hd, body=body_nodoc(hd), local_exc_only=True)
    opn2 = [n for n in cfgh.nodes if n.kind == "stmt" and trigger_calls(n.ast, "EVT_CONN_OPEN")]
    st2 = [n for n in cfgh.nodes if n.kind == "stmt" and any(norm(c.func).endswith(".start") for c in calls_at(n))]
    rep.need(len(opn2) == 1 and len(st2) == 1, "transport.RequestHandler.handle: trigger / assoc.start() not found")
    rep.check(cfgh.dominates(opn2[0], st2[0]), "open-first", "transport.RequestHandler.handle", "EVT_CONN_OPEN before assoc.start()", "the acceptor's provider thread processes Evt5 as soon as the association thread starts: connection-open must be notified before that", mod=tr, node=opn2[0].ast)
    n_open = 0
    for short, m in pkg_modules(repo):
        for c in trigger_calls(m.tree, "EVT_CONN_OPEN"):
            n_open += 1
            q = f"{short}.{qualname(c)}"
            rep.check(q in ("transport.AssociationSocket.connect", "transport.RequestHandler.handle"), "open-first", q, enclosing(c, (ast.stmt,)), "a third EVT_CONN_OPEN site: connection-open could be notified twice", mod=m, node=c)
    rep.floor("EVT_CONN_OPEN sites", n_open, 2)

    # ---- wire match ------------------------------------------------------------------------------------
    dul = repo.mod("dul")
    sf = repo.func("dul", "DULServiceProvider._send")
    p = sf.args.args[1].arg
    snd = [c for c in walk_no_nested(sf) if isinstance(c, ast.Call) and norm(c.func) == "self.socket.send"]
    ts = trigger_calls(sf, "EVT_PDU_SENT")
    ok = len(snd) == 1 and len(ts) == 1 and norm(snd[0].args[0]) == f"{p}.encode()" and attrs_of(ts[0]).get("pdu") == p and snd[0].lineno < ts[0].lineno
    rep.check(ok, "wire-match", "dul.DULServiceProvider._send", f"send({norm(snd[0].args[0]) if snd else '?'}) then EVT_PDU_SENT(pdu={attrs_of(ts[0]).get('pdu') if ts else '?'})", "the PDU notified as sent must be the one whose encoding was written to the socket, after the write", mod=dul, node=sf)
    ss = repo.func("transport", "AssociationSocket.send")
    bp = ss.args.args[1].arg
    from .c16 import written_from_stream
    raw = [c for c in walk_no_nested(ss) if isinstance(c, ast.Call) and norm(c.func) == "self.socket.send"]
    tds = trigger_calls(ss, "EVT_DATA_SENT")
    ok = len(raw) == 1 and len(tds) == 1 and attrs_of(tds[0]).get("data") == bp and written_from_stream(ss, raw[0]) and raw[0].lineno < tds[0].lineno
    rep.check(ok, "wire-match", "transport.AssociationSocket.send", f"EVT_DATA_SENT(data={attrs_of(tds[0]).get('data') if tds else '?'}) after the send loop", "the bytes notified as sent must be the bytes written", mod=tr, node=ss)
    # every write to an association socket goes through AssociationSocket.send, every call of that through _send
    n_writes = 0
    for short, m in pkg_modules(repo):
        for c in ast.walk(m.tree):
            if isinstance(c, ast.Call) and isinstance(c.func, ast.Attribute) and c.func.attr in ("send", "sendall", "sendto", "write") and norm(c.func.value) in ("self.socket", "self.socket.socket", "sock", "self.dul.socket", "dul.socket"):
                q = f"{short}.{qualname(c)}"
                n_writes += 1
                fnq = qualname(c)
                ok = q in ("dul.DULServiceProvider._send", "transport.AssociationSocket.send")
                if q == "dul.DULServiceProvider.run_reactor":
                    h = enclosing(c, (ast.ExceptHandler,))
                    ok = h is not None and h.type is not None and norm(h.type) == "Exception" and "A_ABORT_RQ()" in " ".join(norm(s) for s in h.body)
                    rep.extra["allow_listed_unannounced_write"] = "dul.run_reactor internal-error handler: emergency A-ABORT bypasses the state machine (documented in the code)"
                rep.check(ok, "wire-match", q, enclosing(c, (ast.stmt,)), "bytes are written to the association's socket outside _send()/AssociationSocket.send(): that PDU crosses the wire without a sent notification", mod=m, node=c)
    rep.floor("socket write sites", n_writes, 3)
    dp = repo.func("dul", "DULServiceProvider._decode_pdu")
    bsp = dp.args.args[1].arg
    tdr = trigger_calls(dp, "EVT_DATA_RECV")
    tpr = trigger_calls(dp, "EVT_PDU_RECV")
    decs = [c for c in walk_no_nested(dp) if isinstance(c, ast.Call) and isinstance(c.func, ast.Attribute) and c.func.attr == "decode"]
    ok = len(tdr) == 1 and len(tpr) == 1 and len(decs) == 1
    if ok:
        data_v = attrs_of(tdr[0]).get("data")
        bdef = [s for s in walk_no_nested(dp) if isinstance(s, ast.Assign) and norm(s.targets[0]) == data_v]
        pv = attrs_of(tpr[0]).get("pdu")
        rets = [r for r in walk_no_nested(dp) if isinstance(r, ast.Return)]
        ok = (
            (data_v == bsp or (len(bdef) == 1 and norm(bdef[0].value) == f"bytes({bsp})"))
            and norm(decs[0].func.value) == pv
            and norm(decs[0].args[0]) in (data_v, bsp)
            and decs[0].lineno < tpr[0].lineno
            and len(rets) == 1 and isinstance(rets[0].value, ast.Tuple) and norm(rets[0].value.elts[0]) == pv
        )
    rep.check(ok, "wire-match", "dul.DULServiceProvider._decode_pdu", "EVT_DATA_RECV(bytes read) ; pdu.decode(bytes) ; EVT_PDU_RECV(pdu) ; return pdu", "the received notifications must carry the bytes just read and the PDU decoded from exactly those bytes, and that PDU is the one handed on", mod=dul, node=dp)
    if len(decs) == 1 and len(tpr) == 1:
        # nothing that can fail may sit between decoding a PDU and announcing it: a PDU that crossed the
        # wire and is then classified as invalid was still received
        body = body_nodoc(dp)
        d_st, t_st = enclosing(decs[0], (ast.stmt,)), enclosing(tpr[0], (ast.stmt,))
        between = []
        if d_st in body and t_st in body and body.index(d_st) < body.index(t_st):
            between = [x for x in body[body.index(d_st) + 1 : body.index(t_st)] if any(isinstance(c, (ast.Call, ast.Subscript, ast.Raise)) for c in ast.walk(x))]
            okb = not between
        else:
            okb = False
        rep.check(okb, "wire-match", "dul.DULServiceProvider._decode_pdu", between[0] if between else "EVT_PDU_RECV right after pdu.decode()", "a statement that can raise runs between decoding the PDU and announcing it (e.g. the conversion check): a PDU that crossed the wire but is then judged invalid is acted on (Evt19, abort) without ever being notified as received", mod=dul, node=between[0] if between else dp)
    # likewise the raw bytes are announced before decoding can fail
    if len(tdr) == 1 and len(decs) == 1:
        rep.check(tdr[0].lineno < decs[0].lineno, "wire-match", "dul.DULServiceProvider._decode_pdu", "EVT_DATA_RECV before pdu.decode()", "the received bytes must be announced even when they cannot be decoded", mod=dul, node=tdr[0])
    rd = repo.func("dul", "DULServiceProvider._read_pdu_data")
    dc = [c for c in walk_no_nested(rd) if isinstance(c, ast.Call) and norm(c.func) == "self._decode_pdu"]
    ok = len(dc) == 1 and norm(dc[0].args[0]) == "bytestream" and any(norm(s) == "self._recv_pdu.put(pdu)" for s in walk_no_nested(rd) if isinstance(s, ast.stmt))
    rep.check(ok, "wire-match", "dul.DULServiceProvider._read_pdu_data", "the bytes read are the bytes decoded; the decoded PDU is queued", "what is notified as received must be what the state machine then acts on", mod=dul, node=rd)
    for ev in ("EVT_PDU_SENT", "EVT_PDU_RECV", "EVT_DATA_SENT", "EVT_DATA_RECV"):
        sites = [(s, qualname(c)) for s, m in pkg_modules(repo) for c in trigger_calls(m.tree, ev)]
        rep.check(len(sites) == 1, "wire-match", "package", f"{ev} sites: {sites}", f"{ev} must have a single source, otherwise one wire event is notified twice", mod=None)

    # ---- established -----------------------------------------------------------------------------------------
    acse = repo.mod("acse")
    n_est = 0
    for short, m in pkg_modules(repo):
        for fn in [f for f in ast.walk(m.tree) if isinstance(f, ast.FunctionDef)]:
            sets = [s for s in walk_no_nested(fn) if isinstance(s, ast.Assign) and norm(s.targets[0]).endswith("is_established") and isinstance(s.value, ast.Constant) and s.value.value is True]
            trigs = trigger_calls(fn, "EVT_ESTABLISHED")
            trigs = [c for c in trigs if enclosing(c, (ast.FunctionDef,)) is fn]
            if not sets and not trigs:
                continue
            fqn = f"{short}.{qualname(fn)}"
            n_est += len(sets)
            rep.check(len(sets) == len(trigs) == 1, "established", fqn, f"{len(sets)} `is_established = True`, {len(trigs)} EVT_ESTABLISHED", "one establishment and one notification per negotiation function", mod=m, node=fn)
            for s in sets:
                blk = parent(s)
                body = None
                for fld in ("body", "orelse", "finalbody"):
                    if s in getattr(blk, fld, []):
                        body = getattr(blk, fld)
                i = body.index(s) if body else -1
                nxt = body[i + 1] if body is not None and i + 1 < len(body) else None
                ok = nxt is not None and bool(trigger_calls(nxt, "EVT_ESTABLISHED"))
                rep.check(ok, "established", fqn, s, "`is_established = True` must be immediately followed by the EVT_ESTABLISHED notification (nothing may run in between that could notify released/aborted first)", mod=m, node=s)
                rep.check(enclosing(s, (ast.For, ast.While)) is None, "established", fqn, "establishment outside any loop", "an association can only be established once", mod=m, node=s)
            if trigs:
                cfgf = CFG(fn, body=body_nodoc(fn), local_exc_only=True)
                est = [n for n in cfgf.nodes if n.kind == "stmt" and trigger_calls(n.ast, "EVT_ESTABLISHED")]
                for ev in ("EVT_RELEASED", "EVT_ABORTED"):
                    for n in [n for n in cfgf.nodes if n.kind == "stmt" and trigger_calls(n.ast, ev)]:
                        reach = cfgf.reachable(n)
                        bad = any(e.id in reach for e in est)
                        rep.check(not bad, "established", fqn, n.ast, f"EVT_ESTABLISHED is reachable after {ev} in the same function", mod=m, node=n.ast)
    rep.floor("establishment sites", n_est, 2)
    # released / aborted notifications come with is_established already False
    n_term = 0
    for short, m in pkg_modules(repo):
        for ev in ("EVT_RELEASED", "EVT_ABORTED"):
            for c in trigger_calls(m.tree, ev):
                fn = enclosing(c, (ast.FunctionDef,))
                if fn is None:
                    continue
                n_term += 1
                fqn = f"{short}.{qualname(c)}"
                cfgf = CFG(fn, body=body_nodoc(fn), local_exc_only=True)
                tn = [n for n in cfgf.nodes if n.kind == "stmt" and any(x is c for x in ast.walk(n.ast))]
                if not tn:
                    continue
                # either a dominating `is_established = False`, or the function can never have set it True
                clears = [n for n in cfgf.nodes if n.kind == "stmt" and isinstance(n.ast, ast.Assign) and norm(n.ast.targets[0]).endswith("is_established") and isinstance(n.ast.value, ast.Constant) and n.ast.value.value is False]
                dom = any(cfgf.dominates(k, tn[0]) for k in clears)
                rep.extra.setdefault("terminal_sites", []).append(f"{fqn}:{ev}:{'cleared' if dom else 'not-cleared-here'}")
    rep.floor("released/aborted notification sites", n_term, 8)

    check_delivery_snapshot(repo, rep)
    check_stop_only_idle(repo, rep)
    # the provider thread survives: an event the state machine has no transition for kills it, and with it
    # the connection-close notification (and the rest of the history)
    from ..delegate import delegate
    rep.rule("provider-survives", "no undefined (event, state) pair is fed to the state machine by the user-request guards (C05) or by a timer that runs while the machine considers it stopped (C04)")
    delegate(repo, rep, tier, "C05", ("abort-once", "abort-not-after-release", "release-only-established"), "provider-survives", "the provider thread dies with InvalidEventError: EVT_CONN_CLOSE is never emitted, the transition history stops short of Sta1 and EVT_ABORTED can follow EVT_RELEASED")
    delegate(repo, rep, tier, "C03", ("tls-portable", "short-is-closed"), "provider-survives", "on a TLS connection the provider thread leaves through its internal-error exit: an A-ABORT is written without EVT_PDU_SENT, EVT_CONN_CLOSE is never emitted and the history stops in Sta6")
    delegate(repo, rep, tier, "C01", ("none-not-falsy", "variant-selection"), "provider-survives", "a legal falsy parameter (an empty user-identity server response) selects the wrong item kind; the conversion raises inside the state-machine action that sends the A-ASSOCIATE PDU, the provider thread dies in Sta3: EVT_ESTABLISHED is followed by no PDU-sent and no connection-close notification")
    check_reactor_exit_kills(repo, rep, "provider-survives")
    delegate(repo, rep, tier, "C24", ("reader-woken",), "provider-survives", "the provider thread blocks inside an abort action (a bounded DIMSE queue that is full) or leaves the DIMSE user waiting: the history stops before Sta1 - EVT_ABORTED without the EVT_CONN_CLOSE that must follow it")
    delegate(repo, rep, tier, "C04", ("artim-run-state",), "provider-survives", "the provider thread dies with InvalidEventError in an established association: EVT_CONN_CLOSE is never emitted and the transition history stops in Sta6")


IN_PLACE_REMOVALS = ("remove", "pop", "clear", "insert", "sort", "reverse")


def check_delivery_snapshot(repo: Repo, rep: Report) -> None:
    """trigger() delivers a notification by looping over the list of bound handlers. Unless that loop
    runs over a copy, the list object must never shrink or be reordered in place: a handler that
    unbinds (itself or an earlier one) while the loop runs would shift the remaining entries and the
    next handler is skipped - every other observer of the event loses that notification (a missing
    transition, an open without its close). Either the loop iterates a snapshot, or unbinding rebinds
    the dict entry to a new list (copy-on-write), as it does today."""
    rep.rule("delivery-snapshot", "the handler list a notification is being delivered over cannot shrink under the loop: trigger() iterates a copy, or handler removal is copy-on-write")
    ev = repo.mod("events")
    trig = repo.func("events", "trigger")
    loops = [f for f in walk_no_nested(trig) if isinstance(f, ast.For) and isinstance(f.target, ast.Tuple) and "handlers" in norm(f.iter)]
    if len(loops) != 1:
        rep.defer("events.trigger: the delivery loop over the bound handlers was not found")
        return
    it = strip_cast(loops[0].iter)
    snapshot = (isinstance(it, ast.Call) and norm(it.func) in ("list", "tuple", "copy", "copy.copy", "sorted")) or (isinstance(it, ast.Subscript) and isinstance(it.slice, ast.Slice) and it.slice.lower is None and it.slice.upper is None) or (isinstance(it, ast.Call) and isinstance(it.func, ast.Attribute) and it.func.attr == "copy")
    if not snapshot and isinstance(it, ast.Name):
        # the name may itself be bound to a copy
        b_ = [s_ for s_ in walk_no_nested(trig) if isinstance(s_, ast.Assign) and norm(s_.targets[0]) == it.id]
        snapshot = bool(b_) and all((isinstance(strip_cast(s_.value), ast.Call) and norm(strip_cast(s_.value).func) in ("list", "tuple")) for s_ in b_)
    n = 0
    bad = []
    for fname in ("_add_handler", "_remove_handler"):
        fn = ev.funcs.get(fname)
        if fn is None:
            rep.defer(f"events.{fname} vanished")
            continue
        # names that hold the list object stored in the handler dict
        lists = {"handlers_attr[event]"}
        for s_ in walk_no_nested(fn):
            if isinstance(s_, ast.Assign) and isinstance(s_.targets[0], ast.Name) and norm(strip_cast(s_.value)) == "handlers_attr[event]":
                lists.add(s_.targets[0].id)
        for x in walk_no_nested(fn):
            recv = None
            what = ""
            if isinstance(x, ast.Call) and isinstance(x.func, ast.Attribute) and x.func.attr in IN_PLACE_REMOVALS and norm(strip_cast(x.func.value)) in lists:
                recv, what = norm(x.func.value), f".{x.func.attr}()"
            elif isinstance(x, ast.Delete):
                for t in x.targets:
                    if isinstance(t, ast.Subscript) and norm(strip_cast(t.value)) in lists:
                        recv, what = norm(t.value), "del [..]"
            elif isinstance(x, (ast.Assign, ast.AugAssign)):
                tg = x.targets if isinstance(x, ast.Assign) else [x.target]
                for t in tg:
                    if isinstance(t, ast.Subscript) and norm(strip_cast(t.value)) in lists and isinstance(t.slice, ast.Slice):
                        recv, what = norm(t.value), "slice assignment"
            if recv is not None:
                n += 1
                bad.append((fn, x, f"{recv} {what}"))
        n += 1
    if snapshot:
        rep.ok("delivery-snapshot", "events.trigger :: the delivery loop iterates a copy of the handler list")
    elif not bad:
        rep.ok("delivery-snapshot", "events._add_handler / _remove_handler :: the stored list only grows in place; removal rebinds the entry to a new list", "trigger() iterates the stored list itself")
    else:
        for fn, x, what in bad:
            rep.fail("delivery-snapshot", f"events.{fn.name}", enclosing(x, (ast.stmt,)) or x, f"{what} shrinks / reorders the stored handler list in place while events.trigger() may be iterating that very object (get_handlers returns it uncopied): a handler that unbinds itself or an earlier handler during delivery makes the loop skip the next handler, which never sees this notification", mod=ev, node=x)
    rep.floor("handler-list mutators inspected", n, 2)


def check_stop_only_idle(repo: Repo, rep: Report, rule: str = "close-once-last") -> int:
    """EVT_CONN_CLOSE (and the socket close) happen in the actions that take the provider to Sta1. The
    provider loop may therefore be told to stop only once the machine is idle: every write of
    `_kill_thread = True` in dul.py is (a) kill_dul(), which only the Sta1-returning actions call (C04 /
    close-once-last), (b) under a test that the current state is 'Sta1' and nothing else, or (c) the
    hard-shutdown handler of the reactor's catch-all (recorded under C05's survival rule)."""
    dul = repo.mod("dul")
    n = 0
    for st in ast.walk(dul.tree):
        if not (isinstance(st, ast.Assign) and norm(st.targets[0]) == "self._kill_thread" and norm(st.value) == "True"):
            continue
        n += 1
        q = qualname(st)
        fq = f"dul.{q}"
        if q.endswith(".kill_dul"):
            rep.ok(rule, f"{fq} :: _kill_thread = True", "kill_dul(): called by the actions that return Sta1")
            continue
        if enclosing(st, (ast.ExceptHandler,)) is not None and q.endswith(".run_reactor"):
            rep.ok(rule, f"{fq} :: _kill_thread = True", "hard shutdown in the reactor's catch-all")
            continue
        g = enclosing(st, (ast.If,))
        states = None
        while g is not None and states is None:
            t = g.test
            if isinstance(t, ast.Compare) and len(t.ops) == 1 and norm(t.left).endswith("current_state") and st in list(ast.walk(ast.Module(body=g.body, type_ignores=[]))):
                c = t.comparators[0]
                if isinstance(t.ops[0], ast.Eq) and isinstance(c, ast.Constant):
                    states = {c.value}
                elif isinstance(t.ops[0], ast.In) and isinstance(c, (ast.List, ast.Tuple, ast.Set)) and all(isinstance(e, ast.Constant) for e in c.elts):
                    states = {e.value for e in c.elts}
            g = enclosing(g, (ast.If,))
        ok = states is not None and states <= {"Sta1"}
        rep.check(ok, rule, fq, st, f"the provider loop is stopped while the state machine may be in {sorted(states) if states else 'any state'}: only in Sta1 have the closing actions run - stopping earlier (e.g. in Sta13, waiting for the peer to close) ends the thread without EVT_CONN_CLOSE and without closing the socket", mod=dul, node=st)
    rep.floor("_kill_thread = True sites", n, 3)
    return n



def check_reactor_exit_kills(repo, rep, rule: str) -> None:
    """The association's reactor thread ends only through kill(), which waits until the state machine is back in
    Sta1 before the provider is stopped. An exit that relies on abort() / release() having done so is wrong when
    the idle timeout fires while the provider thread is inside a notification handler (Association.abort is then
    the non-blocking variant): the acceptor's run() shuts the socket down under the state machine, the A-ABORT is
    announced with EVT_PDU_SENT but never reaches the wire."""
    from ..cfg import CFG

    am = repo.mod("association")
    fn = repo.func("association", "Association._run_reactor")
    fq = "association.Association._run_reactor"
    cfg = CFG(fn, body=body_nodoc(fn), local_exc_only=True)

    def kills(nd):
        return nd.ast is not None and nd.kind in ("stmt", "finally") and any(isinstance(c, ast.Call) and norm(c.func) == "self.kill" for c in walk_no_nested(nd.ast))

    rets = [nd for nd in cfg.nodes if nd.kind == "stmt" and isinstance(nd.ast, ast.Return)]
    rep.need(rets, f"{fq}: no return in the reactor loop")
    n = 0
    for r in rets:
        n += 1
        ok, path = cfg.must_pass(cfg.entry, kills, {r.id}, labels_excluded=("exc",))
        where = " -> ".join(str(p_.line) for p_ in path[-5:] if p_.line)
        rep.check(ok, rule, fq, r.ast, f"the reactor returns (lines {where}) without kill(): nothing waits for the state machine to reach Sta1 before the association thread ends - when the exit was an idle timeout taken while the provider thread runs a notification handler, abort() is the non-blocking one, the socket is shut down under the state machine and the A-ABORT that EVT_PDU_SENT announces is never written", mod=am, node=r.ast)
    rep.floor("exits of the association reactor", n, 3)
