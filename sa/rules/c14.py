"""C14 - concurrent acceptor associations never exceed the configured maximum."""

from __future__ import annotations

import ast

from ..cfg import CFG, calls_at
from ..loader import expand_aliases, AnalysisError, Repo, body_nodoc, dotted, norm, walk_no_nested, enclosing, qualname
from ..report import Report

LEVEL = "other"
EXPLANATION = (
    "The schedule quantifier is discharged by a counting argument whose premises are structural "
    "and checked. Let S be the acceptor associations established at time t and T the member of S "
    "that passed the limit test last, at t0. Every other member passed its own test earlier, so its "
    "thread was started earlier and is still alive at t >= t0, hence was counted by T; T counts "
    "itself because the test runs inside T's own thread. So |S| <= count(t0) <= maximum. Premises: "
    "(1) the test dominates send_accept and is_established = True; (2) the counted population is "
    "ae.active_associations (threading.enumerate() filtered by isinstance Association and by AE "
    "identity) filtered by is_acceptor; (3) _negotiate_as_acceptor is reachable only from the "
    "association thread's own body (who-may-call); (4) the comparison is strict-greater of that "
    "count against maximum_associations; (5) the rejection is (2, 3, 2) = transient, "
    "presentation-related, local-limit-exceeded. Trusted: CPython's threading.enumerate() "
    "(contains every started, not yet finished thread, including the caller)."
    " Fourth session: (population) ApplicationEntity.active_associations is evaluated on live associations in every stage (negotiating, established, releasing, aborted) of this and another AE; the counted list is not edited - directly or through an alias - before it is measured; a population kept in the AE's own bookkeeping instead of threading.enumerate() is a violation."
    " Fifth round: (limit-outside-counted-thread) the decision to accept or reject for the association limit is taken before the association's thread is counted, not from inside it; count forms `len([..])` and `sum(1 for ..)` are both read; trivial getter properties are expanded."
)


def run(repo: Repo, rep: Report, tier: str) -> None:
    rep.rule("test-dominates-accept", "the limit test and its reject decision precede the reject branch that dominates send_accept / is_established = True")
    rep.rule("population", "count = acceptor associations of this AE among live threads (threading.enumerate)")
    rep.rule("inside-counted-thread", "_negotiate_as_acceptor is called only from the association thread's body")
    rep.rule("comparison", "reject iff count > maximum_associations (strict), with the AE's configured maximum")
    rep.rule("reason", "over-limit requests are rejected (2, 3, 2)")
    acse = repo.mod("acse")
    fn = repo.func("acse", "ACSE._negotiate_as_acceptor")
    fq = "acse.ACSE._negotiate_as_acceptor"
    cfg = CFG(fn, body=body_nodoc(fn), local_exc_only=True)
    tests = [n for n in cfg.nodes if n.kind == "test" and "maximum_associations" in norm(n.ast.test)]
    if not tests:
        # the limit is compared somewhere else: the only place where "this association is one of the counted ones" holds
        # is the association's own thread (its negotiation) - a count taken in the request handler, before start(), does
        # not see the other requests being handled at the same moment
        from .c27 import pkg_modules
        for short_, m_ in pkg_modules(repo):
            for x_ in ast.walk(m_.tree):
                if isinstance(x_, ast.Compare) and "maximum_associations" in norm(x_) and not qualname(x_).endswith(("maximum_associations", "maximum_associations:setter")):
                    rep.fail("inside-counted-thread", f"{short_}.{qualname(x_)}", enclosing(x_, (ast.stmt,)) or x_, f"the association limit is tested in {short_}.{qualname(x_)} instead of in the acceptor's negotiation: outside the association's own thread the request being handled is not among the live association threads yet, so requests handled concurrently do not count each other and all of them are accepted - more than maximum_associations acceptor associations are established", mod=m_, node=x_)
    rep.need(len(tests) == 1, f"{fq}: maximum_associations test vanished")
    t = tests[0]
    # ---- comparison ----------------------------------------------------------------
    cmp = t.ast.test
    ok = isinstance(cmp, ast.Compare) and len(cmp.ops) == 1
    _XA = lambda x_: expand_aliases(acse.classes.get("ACSE"), x_)  # noqa: E731
    count_var = None
    count_comp = None  # the comprehension that enumerates what is counted

    def _one_def(name):
        ds_ = [s_ for s_ in walk_no_nested(fn) if isinstance(s_, ast.Assign) and norm(s_.targets[0]) == name]
        return ds_[0] if len(ds_) == 1 else None

    def _counted(e):
        """len(<list comp | name of one>) / sum(1 for ..) / a name bound to one of those -> (list name or None, comprehension)"""
        if isinstance(e, ast.Name):
            d_ = _one_def(e.id)
            if d_ is None:
                return None
            if isinstance(d_.value, ast.ListComp):
                return None  # a list is not a count
            r_ = _counted(d_.value)
            return r_
        if isinstance(e, ast.Call) and dotted(e.func) == "len" and len(e.args) == 1:
            a_ = e.args[0]
            if isinstance(a_, ast.ListComp):
                return (None, a_, None)
            if isinstance(a_, ast.Name):
                d_ = _one_def(a_.id)
                if d_ is not None and isinstance(d_.value, ast.ListComp):
                    return (a_.id, d_.value, d_)
            return None
        if isinstance(e, ast.Call) and dotted(e.func) == "sum" and len(e.args) == 1 and isinstance(e.args[0], (ast.GeneratorExp, ast.ListComp)) and isinstance(e.args[0].elt, ast.Constant) and e.args[0].elt.value == 1:
            return (None, e.args[0], None)
        return None

    counted = None
    if ok:
        l, r, op = cmp.left, cmp.comparators[0], cmp.ops[0]
        if isinstance(op, ast.Gt) and _XA(norm(r)) == _XA("self.assoc.ae.maximum_associations"):
            counted = _counted(l)
        elif isinstance(op, ast.Lt) and _XA(norm(l)) == _XA("self.assoc.ae.maximum_associations"):
            counted = _counted(r)
    if counted is not None:
        count_var, count_comp, _cd = counted
        if count_var is None:
            count_var = "<count>"
    rep.check(count_var is not None, "comparison", fq, t.ast, "the request must be rejected exactly when the number of live acceptor associations (this one included) is strictly greater than maximum_associations", mod=acse)
    body = [s for s in t.ast.body if isinstance(s, ast.Assign) and norm(s.targets[0]) == "reject_assoc_rsd"]
    triple = tuple(e.value for e in body[0].value.elts) if body and isinstance(body[0].value, ast.Tuple) else None
    rep.check(triple == (2, 3, 2), "reason", fq, f"over the limit -> {triple}", "documented: rejected-transient (2), service-provider presentation (3), local limit exceeded (2)", mod=acse, node=t.ast)
    # ---- population ------------------------------------------------------------------
    if count_var:
        defs = [s for s in walk_no_nested(fn) if isinstance(s, ast.Assign) and any(x is count_comp for x in ast.walk(s.value))]
        okp = count_comp is not None
        if okp:
            lc = count_comp
            g = lc.generators[0]
            okp = _XA(norm(g.iter)) == _XA("self.assoc.ae.active_associations") and len(g.ifs) == 1 and norm(g.ifs[0]) == f"{norm(g.target)}.is_acceptor" and (norm(lc.elt) == norm(g.target) or (isinstance(lc.elt, ast.Constant) and lc.elt.value == 1)) and len(lc.generators) == 1
        rep.check(okp, "population", fq, defs[0] if defs else count_var, "the count must be over *all* acceptor associations of the AE that are alive (established or not): counting only established ones lets concurrent negotiations all pass", mod=acse, node=(defs[0] if defs else fn))
        if defs:
            dn = cfg.node_of(defs[0])
            rep.check(dn is not None and cfg.dominates(dn, t) and defs[0].lineno < t.line, "population", fq, "count taken immediately before the test", "the count must be taken before the comparison in the same thread", mod=acse, node=defs[0])
        # ... and nothing takes members out of (or adds to) the counted list before it is measured: an alias that
        # is edited for another purpose (logging the *other* peers) edits the count
        aliases = {count_var}
        for s_ in walk_no_nested(fn):
            if isinstance(s_, ast.Assign) and isinstance(s_.value, ast.Name) and s_.value.id in aliases:
                aliases |= {norm(t_) for t_ in s_.targets}
        muts = []
        for x in walk_no_nested(fn):
            if isinstance(x, ast.Call) and isinstance(x.func, ast.Attribute) and norm(x.func.value) in aliases and x.func.attr in ("remove", "pop", "clear", "append", "extend", "insert", "sort", "reverse", "__delitem__", "__setitem__"):
                muts.append(x)
            if isinstance(x, (ast.Subscript,)) and isinstance(x.ctx, (ast.Store, ast.Del)) and norm(x.value) in aliases:
                muts.append(x)
            if isinstance(x, ast.AugAssign) and norm(x.target) in aliases:
                muts.append(x)
        for x in muts:
            rep.fail("population", fq, enclosing(x, (ast.stmt,)) or x, f"`{norm(x)[:50]}` edits the list whose length is compared with maximum_associations (directly or through an alias of it): the count no longer is the number of live acceptor associations - with this association taken out the AE admits one more than the configured maximum", mod=acse, node=x)
        if not muts:
            rep.ok("population", f"{fq} :: {count_var} is not edited between its definition and the test", "")
    ae = repo.mod("ae")
    aa = repo.func("ae", "ApplicationEntity.active_associations")
    # the population itself, evaluated (sa/minipy.py): among live threads, every Association of this AE whatever its
    # stage (negotiating, established, releasing, aborted but still alive) - and nothing else
    from ..minipy import Interp, Obj, Raised, Unsupported
    import itertools as _it

    me = Obj("ApplicationEntity", {})
    other = Obj("ApplicationEntity", {})
    threads = [Obj("Thread", {"name": "worker"})]
    want = []
    for k, (ab, sr, es, rl, acc_) in enumerate(_it.product((False, True), repeat=5)):
        for owner in (me, other):
            a_ = Obj("Association", {"ae": owner, "is_aborted": ab, "_sent_release": sr, "is_established": es, "is_released": rl, "is_acceptor": acc_, "is_requestor": not acc_, "_sent_abort": ab, "_is_paused": False, "is_rejected": False, "mode": "acceptor" if acc_ else "requestor", "name": f"t{k}", "@is_alive": lambda s_: True})
            threads.append(a_)
            if owner is me:
                want.append(a_)
    it_ = Interp({"threading": Obj("module", {"@enumerate": lambda s_: list(threads)}), "Association": "Association"})
    try:
        got = it_.call_function(aa, {aa.args.args[0].arg: me})
        miss = [a_ for a_ in want if not any(g_ is a_ for g_ in (got or []))]
        extra = [g_ for g_ in (got or []) if not any(g_ is a_ for a_ in want)]
        def _desc(a_):
            return ", ".join(f"{k_}={a_.attrs[k_]}" for k_ in ("is_established", "is_aborted", "_sent_release", "is_released", "is_acceptor"))
        rep.check(not miss and not extra, "population", "ae.ApplicationEntity.active_associations", f"{len(want)} live associations of this AE in every stage -> {len(got or [])} returned", f"the population must be every live Association thread of this AE and nothing else{'; left out: one with ' + _desc(miss[0]) if miss else ''}{'; included: a thread that is not an association of this AE' if extra else ''} - an association that is still alive (waiting for the peer's A-RELEASE-RP, or aborting) but not counted lets the AE exceed maximum_associations", mod=ae, node=aa)
    except Raised as r_:
        rep.fail("population", "ae.ApplicationEntity.active_associations", f"raises {r_.kind}", "the population could not be computed", mod=ae, node=aa)
    except Unsupported as exc_:
        if "stand-in ApplicationEntity has no attribute" in str(exc_):
            attr_ = str(exc_).rsplit(" ", 1)[-1]
            rep.fail("population", "ae.ApplicationEntity.active_associations", f"reads self.{attr_}", f"the population is taken from bookkeeping the AE keeps itself (self.{attr_}) instead of the live threads (threading.enumerate()): an association that is registered late, dropped early (not yet / no longer is_alive()) or never registered is not counted although its thread and connection exist, so the AE can exceed maximum_associations", mod=ae, node=aa)
        else:
            rep.defer(f"ae.ApplicationEntity.active_associations could not be evaluated ({exc_})")
    assoc = repo.mod("association")
    ia = repo.func("association", "Association.is_acceptor")
    rep.check(any(norm(r.value) == "self.mode == MODE_ACCEPTOR" for r in walk_no_nested(ia) if isinstance(r, ast.Return)), "population", "association.Association.is_acceptor", "mode == MODE_ACCEPTOR", "is_acceptor must identify acceptor associations", mod=assoc, node=ia)
    ci = repo.cls("association", "Association")
    rep.check(any("Thread" in b for b in ci.bases), "population", "association.Association", f"bases {ci.bases}", "an Association must be a Thread, otherwise threading.enumerate() does not list it", mod=assoc, node=ci.node)
    init = ci.methods["__init__"]
    okt = any(isinstance(c.func, ast.Attribute) and c.func.attr == "__init__" and ("Thread" in norm(c.func.value) or norm(c.func.value) == "super()") and any(k.arg == "target" and "self.run_reactor" in norm(k.value) for k in c.keywords) for c in walk_no_nested(init) if isinstance(c, ast.Call))
    rep.check(okt, "inside-counted-thread", "association.Association.__init__", "Thread target = self.run_reactor", "the association thread's body must be run_reactor", mod=assoc, node=init)

    # ---- dominance ----------------------------------------------------------------------
    rj = [n for n in cfg.nodes if n.kind == "test" and norm(n.ast.test) == "reject_assoc_rsd"]
    acc = [n for n in cfg.nodes if n.kind == "stmt" and any(dotted(c.func) == "self.send_accept" for c in calls_at(n))]
    est = [n for n in cfg.nodes if n.kind == "stmt" and norm(n.ast) == "self.assoc.is_established = True"]
    rep.need(len(rj) == 1 and len(acc) == 1 and len(est) == 1, f"{fq}: reject test / send_accept / is_established site not found")
    ok = cfg.dominates(t, rj[0]) and cfg.dominates(rj[0], acc[0]) and cfg.dominates(acc[0], est[0])
    rep.check(ok, "test-dominates-accept", fq, "limit test -> reject test -> send_accept -> is_established = True", "the limit must be tested before the association can be accepted", mod=acse, node=t.ast)
    # no path from the limit test's true branch to send_accept
    tb = [m for m, l in t.succ if l == "true"][0]
    reach = cfg.reachable(tb, without=set())
    # (covered by C13's sticky-reject typestate; here: the assignment is a constant non-empty triple)
    rep.check(triple is not None and len(triple) == 3, "test-dominates-accept", fq, "over the limit -> a rejection triple is decided", "exceeding the limit must decide a rejection (C13's sticky-reject rule then guarantees the reject branch)", mod=acse, node=t.ast)

    # ---- who may call ---------------------------------------------------------------------
    n_calls = 0
    for m in repo.modules.values():
        for c in [x for x in ast.walk(m.tree) if isinstance(x, ast.Call) and isinstance(x.func, ast.Attribute)]:
            short = m.name.replace("pynetdicom.", "")
            q = qualname(c)
            if c.func.attr == "_negotiate_as_acceptor":
                n_calls += 1
                g = enclosing(c, (ast.If,))
                ok = short == "acse" and q == "ACSE.negotiate_association" and g is not None and any("is_acceptor" in norm(i.test) for i in _ifs(c))
                rep.check(ok, "inside-counted-thread", f"{short}.{q}", enclosing(c, (ast.stmt,)), "_negotiate_as_acceptor may only be entered through negotiate_association for an acceptor", mod=m, node=c)
            if c.func.attr == "negotiate_association":
                n_calls += 1
                ok = short == "association" and q in ("Association.run_reactor", "Association.request")
                rep.check(ok, "inside-counted-thread", f"{short}.{q}", enclosing(c, (ast.stmt,)), "association negotiation started from outside the association's own thread body", mod=m, node=c)
            if c.func.attr == "request" and norm(c.func.value) == "assoc":
                n_calls += 1
                f = enclosing(c, (ast.FunctionDef,))
                mk = [s for s in walk_no_nested(f) if isinstance(s, ast.Assign) and norm(s.targets[0]) == "assoc" and isinstance(s.value, ast.Call)]
                ok = bool(mk) and "MODE_REQUESTOR" in norm(mk[0].value)
                rep.check(ok, "inside-counted-thread", f"{short}.{q}", enclosing(c, (ast.stmt,)), "Association.request() (negotiation outside the thread) must only be used for requestor associations", mod=m, node=c)
    rep.floor("negotiation call sites", n_calls, 4)
    na = repo.func("acse", "ACSE.negotiate_association")
    b = body_nodoc(na)
    ok = len(b) == 1 and isinstance(b[0], ast.If) and norm(b[0].test) == "self.assoc.is_requestor" and "_negotiate_as_requestor" in norm(b[0].body[0]) and len(b[0].orelse) == 1 and isinstance(b[0].orelse[0], ast.If) and norm(b[0].orelse[0].test) == "self.assoc.is_acceptor" and "_negotiate_as_acceptor" in norm(b[0].orelse[0].body[0])
    rep.check(ok, "inside-counted-thread", "acse.ACSE.negotiate_association", "requestor -> _negotiate_as_requestor; acceptor -> _negotiate_as_acceptor", "the acceptor's negotiation must only run for acceptor associations", mod=acse, node=na)
    # acceptor associations are created in the request handler and started as threads
    tr = repo.mod("transport")
    ca = repo.func("transport", "RequestHandler._create_association")
    hd = repo.func("transport", "RequestHandler.handle")
    def _acceptor_ctor(c):
        if not (isinstance(c, ast.Call) and dotted(c.func) == "Association" and c.args and norm(c.args[0]) == "self.ae"):
            return False
        mode = c.args[1] if len(c.args) > 1 else next((k.value for k in c.keywords if k.arg == "mode"), None)
        return mode is not None and norm(mode) == "MODE_ACCEPTOR"

    okc = any(isinstance(s, ast.Assign) and _acceptor_ctor(s.value) for s in walk_no_nested(ca)) and any(isinstance(s, ast.Expr) and isinstance(s.value, ast.Call) and norm(s.value.func).endswith(".start") and not s.value.args for s in walk_no_nested(hd))
    rep.check(okc, "inside-counted-thread", "transport.RequestHandler.handle", "Association(self.ae, MODE_ACCEPTOR) ... assoc.start()", "acceptor associations must be started as threads of the serving AE (run() is never called inline)", mod=tr, node=hd)
    for m in repo.modules.values():
        for c in [x for x in ast.walk(m.tree) if isinstance(x, ast.Call) and isinstance(x.func, ast.Attribute) and x.func.attr == "run_reactor" and "assoc" in norm(x.func.value)]:
            rep.fail("inside-counted-thread", f"{m.name}.{qualname(c)}", enclosing(c, (ast.stmt,)), "Association.run_reactor called inline instead of through Thread.start(): the association would not be in threading.enumerate()", mod=m, node=c)
    # maximum_associations setter keeps an int >= 1
    ms = repo.func("ae", "ApplicationEntity.maximum_associations:setter")
    srcm = " ".join(norm(s) for s in walk_no_nested(ms) if isinstance(s, ast.stmt))
    rep.check("self._maximum_associations = value" in srcm or "self._maximum_associations = " in srcm, "comparison", "ae.ApplicationEntity.maximum_associations", "setter stores the configured maximum", "the compared value must be the configured maximum", mod=ae, node=ms)
    mg = repo.func("ae", "ApplicationEntity.maximum_associations")
    rep.check(any(norm(r.value) == "self._maximum_associations" for r in walk_no_nested(mg) if isinstance(r, ast.Return)), "comparison", "ae.ApplicationEntity.maximum_associations", "getter returns the stored maximum", "the compared value must be the configured maximum", mod=ae, node=mg)
    # ---- state is per instance -------------------------------------------------------------------
    from ..lints import per_instance_state
    rep.rule("per-instance-state", "mutable state of the protocol objects is created per instance, never as a class attribute")
    per_instance_state(repo, rep, "per-instance-state", {"ae": ("ApplicationEntity",), "association": ("Association",)})

    # ---- a counted association's thread does not die on peer input ----------------------------------------
    from .c19 import check_guarded_lookup
    rep.rule("thread-survives", "no unguarded lookup by a peer-chosen context id in the code the association thread runs (C19's guarded-lookup): a dead thread is not counted although its connection is still open")
    check_guarded_lookup(repo, rep, "thread-survives")

def _ifs(node):
    from ..loader import parent
    out = []
    p = parent(node)
    while p is not None and not isinstance(p, ast.FunctionDef):
        if isinstance(p, ast.If):
            out.append(p)
        p = parent(p)
    return out
