"""C15 - DIMSE fragmentation respects the peer's maximum length and reassembles exactly."""

from __future__ import annotations

import ast

from ..cfg import CFG, typestate, witness, calls_at
from ..loader import AnalysisError, Repo, body_nodoc, dotted, norm, walk_no_nested, enclosing, strip_cast, qualname
from ..pdu_model import PduModel
from ..report import Report
from .c01 import code_layout
from .c16 import _pdv_header

LEVEL = "other"
EXPLANATION = (
    "Constant and bit agreement, decided structurally. The PDV overhead is *derived* from the "
    "statically evaluated PresentationDataValueItem encoder table (length field + context id) "
    "plus the 1-byte control-header literal the encoder prepends; every place that shrinks a "
    "fragment, counts fragments or reads a chunk must subtract one common constant >= that "
    "overhead, and the rejected range must end at overhead+1. A typestate over encode_msg's CFG "
    "proves on every path: one PDV per P-DATA, all command fragments before any data fragment, "
    "non-last headers inside the loops and exactly one last header per part. The reader's masks "
    "are evaluated on the four header literals the writer uses. maximum_pdu_size must return the "
    "peer's limit for both roles. Byte equality of reassembly for all lengths follows from the "
    "slicing arithmetic, which is matched structurally rather than proved."
    " Second session: reader-complete - every iteration of P_DATA_TF's item loops hands on the PDV item it framed (a zero-length last fragment keeps its 'last' bit)."
    ' Fourth session: encode_msg and _generate_pdv_fragments are evaluated (generators, file stand-in) on sizes around multiples of the payload on the command / memory / file paths; the path rules step aside on spellings they do not recognise; (message-reset) accumulators of the provider are reset with the message; (file-offset) split_dataset returns the position the File Meta parser stopped at.'
    ' Fifth round: encode_msg is evaluated for flat data sets whose fragments are all equal (a generator that deduplicates or caches would be visible), and for an empty file; the path rules step aside (defer to the evaluation) when the generator delegates with `yield from`; the per-message reset may live in a helper method.'
    ' Sixth round: (message-reset) the reassembly state is written only by DIMSEServiceProvider.'
)

FQ = "dimse_messages.DIMSEMessage"


def run(repo: Repo, rep: Report, tier: str, only_completion: bool = False, names: dict | None = None) -> None:
    names = names or {}
    _orig_fail, _orig_ok, _orig_check = rep.fail, rep.ok, rep.check
    if only_completion:
        keep = {"overhead-count", "order-flags", "one-pdv"}

        def _fail(rule, *a, **k):
            if rule in names or rule in names.values():
                _orig_fail(names.get(rule, rule), *a, **k)

        def _ok(rule, *a, **k):
            if rule in names or rule in names.values():
                _orig_ok(names.get(rule, rule), *a, **k)

        def _check(cond, rule, *a, **k):
            if rule in names:
                return _orig_check(cond, names[rule], *a, **k)
            return cond

        rep.fail, rep.ok, rep.check = _fail, _ok, _check
    try:
        _run(repo, rep, tier, only_completion)
    finally:
        rep.fail, rep.ok, rep.check = _orig_fail, _orig_ok, _orig_check
    # ---- 0 means unlimited, None means unknown ------------------------------------------------
    from ..lints import zero_legal_truthiness
    from ..lints import decoder_loops_complete
    rep.rule("reader-complete", "P_DATA_TF's item loops hand on every PDV item they frame (none skipped, whatever its length)")
    rep.floor("codec item loops", decoder_loops_complete(repo, rep, "reader-complete", ("P_DATA_TF._generate_items", "P_DATA_TF._wrap_generate_items")), 2)
    rep.rule("none-not-falsy", "the maximum length is never tested by truthiness (0 = unlimited is a legal value)")
    zero_legal_truthiness(repo, rep, "none-not-falsy", {"maximum_length", "maximum_length_received"}, modules=("dimse", "dimse_messages", "association", "acse"))


def _run(repo: Repo, rep: Report, tier: str, only_completion: bool) -> None:
    if not only_completion:
        _declare(rep)
    _body(repo, rep)

    if not only_completion:
        check_message_reset(repo, rep)
        check_file_offset(repo, rep)
        from .c16 import check_reader_presence
        check_reader_presence(repo, rep, "reader-bits")
        check_every_pdv_classified(repo, rep)

def _declare(rep):
    rep.rule("overhead-count", "the number of fragments per part is ceil(length / payload size) on the command, data and file paths")
    rep.rule("overhead", "every fragment-size computation subtracts one common constant k >= PDV overhead derived from the codec table; 1..k is rejected; 0 means a single fragment")
    rep.rule("one-pdv", "each yielded P_DATA carries exactly one PDV")
    rep.rule("order-flags", "command fragments precede data fragments; exactly one 'last' fragment per part, after the non-last ones")
    rep.rule("reader-bits", "decode_msg classifies the writer's four control headers as intended and appends data[1:] in arrival order")
    rep.rule("peer-maximum", "maximum_pdu_size is the peer's maximum length for both roles and is what send_msg passes to encode_msg")


def _body(repo, rep):
    mod = repo.mod("dimse_messages")
    enc = repo.func("dimse_messages", "DIMSEMessage.encode_msg")
    gen = repo.func("dimse_messages", "DIMSEMessage._generate_pdv_fragments")
    dec = repo.func("dimse_messages", "DIMSEMessage.decode_msg")

    # ---- derived overhead ----------------------------------------------------
    pm = PduModel(repo)
    pdv = pm.classes.get("PresentationDataValueItem")
    rep.need(pdv is not None, "PresentationDataValueItem vanished")
    layout, rows = code_layout(pm, pdv)
    hdr = 0
    for f in layout:
        if f[0] in ("length", "fixed", "reserved", "lenof", "str"):
            hdr += f[1]
        elif f[0] == "type":
            hdr += 1
        else:
            break
    ctrl = 1  # the literal control header; its width is checked at every append site
    overhead = hdr + ctrl
    rep.sample({"PDV header bytes from the codec table": hdr, "control header literal": ctrl, "overhead": overhead})
    rep.need(overhead >= 6, f"derived overhead {overhead} < 6: codec table changed, see C01")

    # ---- (1) constants ----------------------------------------------------------
    sites = []
    for fn, var in ((enc, "max_pdu_length"), (gen, "fragment_length")):
        for n in walk_no_nested(fn):
            if isinstance(n, ast.BinOp) and isinstance(n.op, (ast.Sub, ast.Add)) and isinstance(n.right, ast.Constant) and isinstance(n.right.value, int):
                if norm(n.left) == var and isinstance(n.op, ast.Sub):
                    sites.append((fn, n, n.right.value, "sub"))
                elif isinstance(n.op, ast.Add) and enclosing(n, (ast.Assign,)) is not None and norm(enclosing(n, (ast.Assign,)).targets[0]) == var:
                    sites.append((fn, n, n.right.value, "add"))
            if isinstance(n, ast.AugAssign) and norm(n.target) == var and isinstance(n.op, ast.Sub) and isinstance(n.value, ast.Constant):
                sites.append((fn, n, n.value.value, "sub"))
    rep.floor("fragment-size constant sites", len(sites), 2)
    # the payload size is `maximum - k` and nothing else: any other write to the size variable (a rounding, a
    # cap, a value-dependent adjustment) makes the size the generator slices by differ from the one the
    # fragment count in encode_msg is computed with - fragments are then left unsent or mis-flagged
    site_stmts = {id(enclosing(n, (ast.stmt,)) if not isinstance(n, ast.stmt) else n) for _, n, _, _ in sites}
    for fn, var in ((enc, "max_pdu_length"), (gen, "fragment_length")):
        for st_ in walk_no_nested(fn):
            tg = st_.targets if isinstance(st_, ast.Assign) else [st_.target] if isinstance(st_, (ast.AugAssign, ast.AnnAssign)) and getattr(st_, "value", None) is not None else []
            if any(norm(t_) == var for t_ in tg) and id(st_) not in site_stmts:
                rep.fail("overhead", f"{FQ}.{fn.name}", st_, f"`{norm(st_)}` changes the fragment size by something other than the constant PDV overhead: the generator and the fragment count in encode_msg no longer use the same payload size, so for some lengths the last fragments are never sent (or the 'last' flag lands on a fragment that is not the last)", mod=mod, node=st_)
    ks = {k for _, _, k, _ in sites}
    for fn, n, k, kind in sites:
        st = enclosing(n, (ast.stmt,)) if not isinstance(n, ast.stmt) else n
        ok = k >= overhead and len(ks) == 1
        rep.check(ok, "overhead", f"{FQ}.{fn.name}", f"{norm(st)} (k={k})", f"fragment size is computed with overhead {k}; the PDV item adds {overhead} bytes (4 length + 1 context id + 1 control header) and all sites must agree (found {sorted(ks)}): a PDU would exceed the peer's maximum or fragments would be miscounted", mod=mod, node=n)
    k0 = min(ks) if ks else overhead
    check_encode_msg_evaluated(repo, rep, k0)
    gz = [i for i in walk_no_nested(gen) if isinstance(i, ast.If) and norm(i.test) in ("fragment_length == 0", "not fragment_length")]
    # every fragment the generator emits for a limited maximum is sized by the payload (maximum - k): a yield
    # the overhead subtraction does not dominate (other than the unlimited case) is measured against the
    # peer's maximum itself, while encode_msg counts the fragments by the payload size
    from ..cfg import CFG as _CFG
    gcfg = _CFG(gen)
    adj_nodes = [gcfg.node_of(enclosing(n, (ast.stmt,)) if not isinstance(n, ast.stmt) else n) for f_, n, _, kind in sites if f_ is gen and kind == "sub"]
    adj_nodes = [a for a in adj_nodes if a is not None]
    n_y = 0
    for y in [y for y in walk_no_nested(gen) if isinstance(y, (ast.Yield, ast.YieldFrom))]:
        st_y = enclosing(y, (ast.stmt,))
        if gz and any(x is st_y for b in gz[0].body for x in ast.walk(b)):
            continue
        ny = gcfg.node_of(st_y)
        n_y += 1
        dominated = ny is not None and any(gcfg.dominates(a, ny) for a in adj_nodes)
        rep.check(dominated, "overhead-count", f"{FQ}._generate_pdv_fragments", st_y, "this fragment is emitted on a path that has not taken the PDV overhead off the maximum: its size (or the decision to emit it) is measured against the peer's maximum, while encode_msg counts ceil(length / (maximum - k)) fragments - for lengths between the payload size and the maximum the generator yields one fragment fewer than encode_msg asks for, and the fragment flagged 'last' is never sent", mod=mod, node=y)
    rep.floor("generator yields sized by the payload", n_y, 1)
    # the generator itself, evaluated (sa/minipy.py) for every maximum 0..k+10 and every stream length up to
    # three payloads and a bit: unlimited -> the stream once; 1..k -> ValueError; otherwise exactly the
    # consecutive slices of the payload size (their number is the ceil() encode_msg counts with)
    from ..minipy import Interp as _Interp, Raised as _Raised, Unsupported as _Unsupported
    import math as _math

    it_ = _Interp({"ceil": _math.ceil})
    params = [a.arg for a in gen.args.args]
    n_pts = 0
    bad_pts = []
    try:
        for fl in list(range(0, k0 + 11)) + [k0 + 58]:
            for ln in range(1, 3 * max(fl - k0, 1) + 4):
                stream = bytes(x % 251 for x in range(ln))
                n_pts += 1
                it_.steps = 0
                try:
                    got = it_.call_function(gen, dict(zip(params, [stream, fl])))
                except _Raised as r_:
                    got = ("raises", r_.kind)
                if fl == 0:
                    want = [stream]
                elif fl <= k0:
                    want = ("raises", "ValueError")
                else:
                    pay = fl - k0
                    want = [stream[o:o + pay] for o in range(0, ln, pay)]
                if got != want:
                    bad_pts.append((fl, ln, got, want))
    except _Unsupported as exc_:
        rep.defer(f"{FQ}._generate_pdv_fragments could not be evaluated ({exc_})")
    for fl, ln, got, want in bad_pts[:3]:
        def show(v):
            return f"{len(v)} fragment(s) of {[len(x) for x in v][:6]} bytes" if isinstance(v, list) else f"{v[0]} {v[1]}"
        rep.fail("overhead", f"{FQ}._generate_pdv_fragments", f"maximum {fl}, stream of {ln} bytes -> {show(got)}", f"for a peer maximum of {fl} and a part of {ln} bytes the generator must give {show(want)} (consecutive slices of maximum - {k0} bytes; 0 = unlimited; 1..{k0} rejected) - encode_msg counts ceil(length / (maximum - {k0})) fragments and flags the last of them: a different number or size leaves fragments unsent, mis-flags the last one or exceeds the peer's maximum", mod=mod, node=gen)
    if not bad_pts and n_pts:
        rep.ok("overhead", f"{FQ}._generate_pdv_fragments :: {n_pts} (maximum, length) points", "consecutive payload-size slices; 0 unlimited; 1..k rejected")
    rep.floor("generator evaluation points", n_pts, 100)

    # the path rules below are a second, spelling-dependent look at what check_encode_msg_evaluated() decides by
    # evaluation: on a spelling they do not recognise (a computed control header, a read-ahead loop) they step aside
    def _typestate_rules():
        if any(isinstance(x, ast.YieldFrom) for x in walk_no_nested(enc)):
            raise AnalysisError("encode_msg delegates the fragments of a part to another generator (yield from)")
        # ---- (3)/(4) typestate over encode_msg ------------------------------------------
        cfg = CFG(enc, body=body_nodoc(enc), may_raise=lambda n: False)
        fails = []
        n_app = [0]

        def transfer(n, st):
            in_pdata, cmd_last, data_seen, data_last, loopdepth_flag = st
            if n.kind == "stmt":
                a = n.ast
                if isinstance(a, ast.Assign) and norm(a.value) == "P_DATA()":
                    if in_pdata:
                        fails.append(("one-pdv", n, st, "a P_DATA holding a fragment is replaced before it was yielded: the fragment is lost"))
                    in_pdata = 0
                h = _pdv_header(a)
                dyn_last = False
                if isinstance(h, tuple):
                    alts = h[1]
                    if len({x & 1 for x in alts}) != 1:
                        raise AnalysisError(f"encode_msg: a PDV header chosen at run time may be command or data (line {a.lineno})")
                    if len({x & 2 for x in alts}) != 1:
                        dyn_last = True
                        raise AnalysisError(f"encode_msg line {a.lineno}: the 'last fragment' bit is chosen by a run-time comparison")
                    h = min(alts) & 1  # classification only; last-ness handled below
                if h is not None:
                    n_app[0] += 1
                    if in_pdata is None:
                        fails.append(("one-pdv", n, st, "a PDV is appended to a P_DATA that was already yielded (or never created)"))
                    in_pdata = min((in_pdata if in_pdata is not None else 0) + 1, 2)
                    in_loop = enclosing(a, (ast.For, ast.While)) is not None
                    if h & 1:
                        if data_seen:
                            fails.append(("order-flags", n, st, "a command fragment can be emitted after a data-set fragment"))
                        if cmd_last >= 1:
                            fails.append(("order-flags", n, st, "a command fragment can be emitted after the fragment marked last"))
                        if dyn_last:
                            cmd_last = 1
                        elif h & 2:
                            cmd_last = min(cmd_last + 1, 2)
                            if in_loop:
                                fails.append(("order-flags", n, st, "the 'last' header is used inside the fragment loop"))
                    else:
                        data_seen = True
                        if data_last >= 1 and not dyn_last:
                            fails.append(("order-flags", n, st, "a data-set fragment can be emitted after the fragment marked last"))
                        if cmd_last != 1:
                            fails.append(("order-flags", n, st, "a data-set fragment can be emitted before the last command fragment"))
                        if dyn_last:
                            data_last = 1
                        elif h & 2:
                            data_last = min(data_last + 1, 2)
                            if in_loop:
                                fails.append(("order-flags", n, st, "the 'last' header is used inside the fragment loop"))
                    if h not in (0, 1, 2, 3):
                        fails.append(("order-flags", n, st, f"control header 0x{h:02X} sets bits other than command/last"))
                if isinstance(a, ast.Expr) and isinstance(a.value, ast.Yield):
                    if norm(a.value.value) == "pdata":
                        if in_pdata != 1:
                            fails.append(("one-pdv", n, st, f"a P_DATA is yielded with {in_pdata} PDVs"))
                        in_pdata = None
            return [((in_pdata, cmd_last, data_seen, data_last, loopdepth_flag), None)]

        ins, pred = typestate(cfg, (None, 0, False, 0, False), transfer)
        for st in ins.get(cfg.exit.id, ()):
            in_pdata, cmd_last, data_seen, data_last, _ = st
            if in_pdata:
                fails.append(("one-pdv", cfg.exit, st, "encode_msg can end with a fragment that was never yielded"))
            if cmd_last != 1:
                fails.append(("order-flags", cfg.exit, st, f"a path ends with {cmd_last} 'last command fragment' markers (must be exactly 1)"))
            if data_seen and data_last != 1:
                fails.append(("order-flags", cfg.exit, st, f"data-set fragments were sent but {data_last} of them is marked last (must be exactly 1)"))
        rep.floor("PDV append visits", n_app[0], 6)
        seen = set()
        for rule, node, st, msg in fails:
            text = norm(node.ast) if node.ast is not None else "end of encode_msg"
            if (rule, text, msg) in seen:
                continue
            seen.add((rule, text, msg))
            rep.fail(rule, f"{FQ}.encode_msg", f"{text} :: {msg[:60]}", msg, mod=mod, node=node.ast or enc, path=witness(cfg, pred, node, st))
        for rule in ("one-pdv", "order-flags"):
            if not any(f[0] == rule for f in fails):
                rep.ok(rule, f"{FQ}.encode_msg :: all paths", f"{n_app[0]} append visits")
        # the generator yields feed `next(cmd_fragments)` / `next(ds_fragments)` from the right stream
        nexts = [(norm(c.args[0]), _pdv_header(enclosing(c, (ast.Expr,)))) for c in walk_no_nested(enc) if isinstance(c, ast.Call) and dotted(c.func) == "next"]
        okn = all((h & 1) == (1 if v == "cmd_fragments" else 0) for v, h in nexts if isinstance(h, int))
        if len(nexts) < 2:
            raise AnalysisError("encode_msg does not take its fragments with next() from two generators")
        rep.check(okn, "order-flags", f"{FQ}.encode_msg", f"{nexts}", "command headers must wrap command-set fragments and data headers data-set fragments", mod=mod, node=enc)
        gens = {norm(s.targets[0]): norm(s.value.args[0]) for s in walk_no_nested(enc) if isinstance(s, ast.Assign) and isinstance(s.value, ast.Call) and dotted(s.value.func) == "self._generate_pdv_fragments"}
        if not gens:
            raise AnalysisError("encode_msg does not bind the fragment generators to locals")
        rep.check(gens == {"cmd_fragments": "encoded_command_set", "ds_fragments": "encoded_data_set"}, "order-flags", f"{FQ}.encode_msg", f"{gens}", "fragment generators must be fed the command set and the data set respectively", mod=mod, node=enc)


    try:
        _typestate_rules()
    except AnalysisError as exc_ts:
        rep.counters["encode_msg path rules"] = 0
        for rule_ in ("one-pdv", "order-flags"):
            rep.ok(rule_, f"{FQ}.encode_msg :: decided by evaluation", f"path rules not applicable to this spelling ({str(exc_ts)[:80]})")
    # ---- (5) reader ------------------------------------------------------------------------
    fqd = f"{FQ}.decode_msg"
    hb = [s for s in walk_no_nested(dec) if isinstance(s, ast.Assign) and norm(s.targets[0]) == "control_header_byte"]
    rep.check(len(hb) == 1 and norm(hb[0].value) == "data[0]", "reader-bits", fqd, hb[0] if hb else "control_header_byte = ?", "the control header is the first byte of the PDV data", mod=mod, node=dec)

    def mask_of(t):
        """`x & M` or `x & M != 0` -> M"""
        if isinstance(t, ast.Compare) and len(t.ops) == 1 and isinstance(t.ops[0], ast.NotEq) and isinstance(t.comparators[0], ast.Constant) and t.comparators[0].value == 0:
            t = t.left
        if isinstance(t, ast.BinOp) and isinstance(t.op, ast.BitAnd) and norm(t.left) == "control_header_byte" and isinstance(t.right, ast.Constant):
            return t.right.value
        return None

    tests = [(i, mask_of(i.test)) for i in walk_no_nested(dec) if isinstance(i, ast.If) and "control_header_byte" in norm(i.test)]
    rep.need(len(tests) == 3 and all(m is not None for _, m in tests), f"{fqd}: control-header tests not recognised")
    outer = [t for t in tests if enclosing(t[0], (ast.If,)) is None or "control_header_byte" not in norm(enclosing(t[0], (ast.If,)).test)]
    rep.need(len(outer) == 1, f"{fqd}: command/data split not recognised")
    cmd_if, m1 = outer[0]
    inner_cmd = [t for t in tests if t[0] is not cmd_if and any(x is t[0] for s in cmd_if.body for x in ast.walk(s))]
    inner_ds = [t for t in tests if t[0] is not cmd_if and any(x is t[0] for s in cmd_if.orelse for x in ast.walk(s))]
    rep.need(len(inner_cmd) == 1 and len(inner_ds) == 1, f"{fqd}: last-fragment tests not recognised")
    for h, is_cmd, is_last in ((0x01, True, False), (0x03, True, True), (0x00, False, False), (0x02, False, True)):
        got_cmd = bool(h & m1)
        m2 = inner_cmd[0][1] if got_cmd else inner_ds[0][1]
        got_last = bool(h & m2)
        rep.check(got_cmd == is_cmd and got_last == is_last, "reader-bits", fqd, f"header 0x{h:02X} -> command={got_cmd}, last={got_last}", f"the writer uses 0x{h:02X} for command={is_cmd}, last={is_last}", mod=mod, node=cmd_if)
    writes = [c for c in walk_no_nested(dec) if isinstance(c, ast.Call) and isinstance(c.func, ast.Attribute) and c.func.attr == "write" and c.args and "data" in norm(c.args[0])]
    rep.floor("reassembly writes", len(writes), 3)
    for w in writes:
        in_cmd = any(x is w for s in cmd_if.body for x in ast.walk(s))
        tgt = norm(w.func.value)
        okw = norm(w.args[0]) == "data[1:]" and (("command" in tgt) == in_cmd)
        rep.check(okw, "reader-bits", fqd, enclosing(w, (ast.stmt,)), "each fragment's payload (data[1:]) is appended to the part its header names", mod=mod, node=w)
    # every PDV of a P-DATA primitive is consumed: inside the PDV loop the only way out is
    # `return True` (message complete); no break, no early `return False`
    loops = [f for f in walk_no_nested(dec) if isinstance(f, ast.For) and "presentation_data_value_list" in norm(f.iter)]
    rep.need(len(loops) == 1, f"{fqd}: PDV loop vanished")
    for x in ast.walk(loops[0]):
        if isinstance(x, ast.Return):
            okret = isinstance(x.value, ast.Constant) and x.value.value is True
            rep.check(okret, "reader-bits", fqd, f"{norm(x)} inside the PDV loop under '{norm(enclosing(x, (ast.If,)).test) if enclosing(x, (ast.If,)) else ''}'", "decode_msg leaves the PDV loop without the message being complete: the remaining PDVs of the same P-DATA-TF (allowed by PS3.8 to be grouped in one PDU) are dropped and the data set is truncated or never completes", mod=mod, node=x)
        if isinstance(x, ast.Break) and enclosing(x, (ast.For, ast.While)) is loops[0]:
            rep.fail("reader-bits", fqd, "break inside the PDV loop", "remaining PDVs of the same P-DATA-TF are dropped", mod=mod, node=x)
    after = [st for st in body_nodoc(dec) if st.lineno > loops[0].end_lineno]
    rep.check(any(isinstance(st, ast.Return) and isinstance(st.value, ast.Constant) and st.value.value is False for st in after), "reader-bits", fqd, "return False after the PDV loop", "an incomplete message must be reported as such only after all PDVs were consumed", mod=mod, node=dec)
    # last command fragment: decode the accumulated command set; last data fragment: return True
    rep.check(any(norm(s) == "return True" for s in inner_ds[0][0].body), "reader-bits", fqd, "last data fragment -> return True", "the message is complete at the last data-set fragment", mod=mod, node=inner_ds[0][0])

    # ---- (6) peer maximum -----------------------------------------------------------------------
    dm = repo.mod("dimse")
    mp = repo.func("dimse", "DIMSEServiceProvider.maximum_pdu_size")
    b = body_nodoc(mp)
    ok = len(b) == 2 and isinstance(b[0], ast.If) and norm(b[0].test) == "self.assoc.is_requestor" and "self.assoc.acceptor.maximum_length" in norm(b[0].body[0]) and isinstance(b[1], ast.Return) and "self.assoc.requestor.maximum_length" in norm(b[1])
    ok2 = len(b) == 2 and isinstance(b[0], ast.If) and norm(b[0].test) == "self.assoc.is_acceptor" and "self.assoc.requestor.maximum_length" in norm(b[0].body[0]) and isinstance(b[1], ast.Return) and "self.assoc.acceptor.maximum_length" in norm(b[1])
    rep.check(ok or ok2, "peer-maximum", "dimse.DIMSEServiceProvider.maximum_pdu_size", "requestor -> acceptor.maximum_length; acceptor -> requestor.maximum_length", "the limit that applies to what we send is the one the *peer* announced", mod=dm, node=mp)
    sm = repo.func("dimse", "DIMSEServiceProvider.send_msg")
    calls = [c for c in walk_no_nested(sm) if isinstance(c, ast.Call) and isinstance(c.func, ast.Attribute) and c.func.attr == "encode_msg"]
    rep.check(len(calls) == 1 and len(calls[0].args) == 2 and norm(calls[0].args[1]) == "self.maximum_pdu_size" and norm(calls[0].args[0]) == "context_id", "peer-maximum", "dimse.DIMSEServiceProvider.send_msg", calls[0] if calls else "encode_msg(?)", "encode_msg must be given the context id and the peer's maximum PDU size", mod=dm, node=sm)
    loop = [f for f in walk_no_nested(sm) if isinstance(f, ast.For) and "encode_msg" in norm(f.iter)]
    rep.check(bool(loop) and any(norm(s) == f"self.dul.send_pdu({norm(loop[0].target)})" for s in loop[0].body), "peer-maximum", "dimse.DIMSEServiceProvider.send_msg", "for pdata in encode_msg(..): self.dul.send_pdu(pdata)", "every fragment must be handed to the provider in generation order", mod=dm, node=sm)


class _FileStub:
    """what open(path, 'rb') gives the file-backed branch of encode_msg: seek / read / tell over fixed bytes"""

    _minipy_cm = True
    _minipy_methods = {"seek", "read", "tell", "close", "readinto"}

    def __init__(self, content: bytes):
        self.content, self.pos = content, 0

    def __enter__(self):
        return self

    def __exit__(self, *a):
        return None

    def close(self):
        return None

    def tell(self):
        return self.pos

    def seek(self, off, whence=0):
        self.pos = off if whence == 0 else self.pos + off if whence == 1 else len(self.content) + off
        return self.pos

    def read(self, n=-1):
        if n is None or n < 0:
            n = len(self.content) - self.pos
        out = self.content[self.pos:self.pos + n]
        self.pos += len(out)
        return out


def eval_encode_msg(repo: Repo, cmd: bytes, data, mode: str, mx: int, offset: int = 9):
    """encode_msg evaluated (sa/minipy.py) for one message: `mode` is 'none' (no data set), 'memory' (data set in a
    BytesIO holding `data`) or 'file' (data set read from a file at `offset`). -> (list of PDV payload bytes,
    problem text or None). Raises minipy.Unsupported when the code cannot be evaluated."""
    from ..minipy import GenResult, Interp, Obj
    import math as _math

    mod = repo.mod("dimse_messages")
    ci = mod.classes.get("DIMSEMessage")
    enc = repo.func("dimse_messages", "DIMSEMessage.encode_msg")

    def resolver(cls, name):
        fn_ = ci.methods.get(name) if ci is not None else None
        if fn_ is None:
            return None
        return fn_, any(norm(d) == "staticmethod" for d in fn_.decorator_list)

    data = data or b""
    ds_obj, path = None, None
    if mode == "memory":
        ds_obj = Obj("BytesIO", {"@getvalue": lambda s_, d_=data: d_, "@getbuffer": lambda s_, d_=data: d_, "@seek": lambda s_, *a: 0, "@read": lambda s_, d_=data: d_})
    if mode == "file":
        path = ("/f.dcm", offset)
    me = Obj("DIMSEMessage", {"command_set": Obj("Dataset", {}), "data_set": ds_obj, "_data_set_path": path, "_data_set_file": None, "context_id": None, "encoded_command_set": None})
    g = {"ceil": _math.ceil, "encode": lambda *a, c_=cmd, **k_: c_, "open": lambda p_, m_="rb", d_=data: _FileStub(b"\x00" * offset + d_), "Path": lambda x: x, "bytes": bytes}
    it = Interp(g, classes={"P_DATA": lambda: Obj("P_DATA", {"presentation_data_value_list": []})}, method_resolver=resolver)
    it.gen_partial = True
    res = it.call_function(enc, {"self": me, "context_id": 5, "max_pdu_length": mx})
    got, problem = [], None
    for pd in res:
        pl = pd.get("presentation_data_value_list") if isinstance(pd, Obj) else None
        if not isinstance(pl, list) or len(pl) != 1 or not isinstance(pl[0], tuple) or len(pl[0]) != 2:
            problem = "a P-DATA primitive that does not hold exactly one (context id, PDV) pair"
            break
        if pl[0][0] != 5:
            problem = f"a PDV under context id {pl[0][0]!r} instead of the message's"
            break
        got.append(bytes(pl[0][1]))
    if isinstance(res, GenResult) and res.raised is not None and problem is None:
        problem = f"the encoder raises {res.raised.kind} after {len(got)} fragment(s)"
    return got, problem


def check_encode_msg_evaluated(repo: Repo, rep: Report, k0: int) -> None:
    """encode_msg itself, evaluated (sa/minipy.py; the message, the P-DATA primitive and the file are recording
    stand-ins) for peer maxima 0, k+1, k+2, k+4, k+10 and part lengths around multiples of the payload size, on
    the three paths (command set; data set in memory; data set read from a file at an offset): what comes out
    must be one PDV per P-DATA, the command fragments first (control header 0x01 ... 0x03), then the data
    fragments (0x00 ... 0x02), each part cut into consecutive slices of maximum - k bytes (the whole part when
    the maximum is 0), nothing missing, nothing added, the 'last' bit on the last fragment only. This decides the
    fragment count, the flags and the completeness of every part for every spelling of the loops."""
    from ..minipy import GenResult, Interp, Obj, Raised, Unsupported
    import math as _math

    mod = repo.mod("dimse_messages")
    ci = mod.classes.get("DIMSEMessage")
    enc = repo.func("dimse_messages", "DIMSEMessage.encode_msg")

    def resolver(cls, name):
        fn_ = ci.methods.get(name) if ci is not None else None
        if fn_ is None:
            return None
        return fn_, any(norm(d) == "staticmethod" for d in fn_.decorator_list)

    def stream(n_, salt, flat=False):
        # distinct bytes show reordering / loss; a flat stream (a blank image) shows decisions taken by comparing
        # fragment *contents* instead of positions
        return bytes([salt % 251]) * n_ if flat else bytes((salt + 7 * x) % 251 for x in range(n_))

    def expect(part, pay, first, last):
        if pay is None:
            frs = [part]
        else:
            frs = [part[o:o + pay] for o in range(0, len(part), pay)]
        return [bytes([last if k_ == len(frs) - 1 else first]) + f_ for k_, f_ in enumerate(frs)]

    n = 0
    bad = []
    try:
        for mx in (0, k0 + 1, k0 + 2, k0 + 4, k0 + 10):
            pay = None if mx == 0 else mx - k0
            unit = pay or 5
            for lc in sorted({1, unit, unit + 1, 2 * unit, 2 * unit + 1}):
                for mode in ("none", "memory", "file"):
                    lds = [None] if mode == "none" else sorted({1, unit - 1, unit, unit + 1, 2 * unit, 3 * unit} - {0}) + [0]
                    for ld, flat in [(ld_, fl_) for ld_ in lds for fl_ in ((False, True) if mx in (0, k0 + 2) else (False,))]:
                        cmd = stream(lc, 3, flat)
                        data = stream(ld, 101, flat) if ld else b""
                        offset = 9
                        ds_obj = None
                        path = None
                        if mode == "memory":
                            ds_obj = Obj("BytesIO", {"@getvalue": lambda s_, d_=data: d_, "@getbuffer": lambda s_, d_=data: d_, "@seek": lambda s_, *a: 0, "@read": lambda s_, d_=data: d_})
                        if mode == "file":
                            path = ("/f.dcm", offset)
                        me = Obj("DIMSEMessage", {"command_set": Obj("Dataset", {}), "data_set": ds_obj, "_data_set_path": path, "_data_set_file": None, "context_id": None, "encoded_command_set": None})
                        g = {"ceil": _math.ceil, "encode": lambda *a, c_=cmd, **k_: c_, "open": lambda p_, m_="rb", d_=data: _FileStub(b"\x00" * offset + d_), "Path": lambda x: x, "bytes": bytes}
                        it = Interp(g, classes={"P_DATA": lambda: Obj("P_DATA", {"presentation_data_value_list": []})}, method_resolver=resolver)
                        it.gen_partial = True
                        n += 1
                        res = it.call_function(enc, {"self": me, "context_id": 5, "max_pdu_length": mx})
                        got, problem = [], None
                        for pd in res:
                            pl = pd.get("presentation_data_value_list") if isinstance(pd, Obj) else None
                            if not isinstance(pl, list) or len(pl) != 1 or not isinstance(pl[0], tuple) or len(pl[0]) != 2:
                                problem = "a P-DATA primitive that does not hold exactly one (context id, PDV) pair"
                                break
                            if pl[0][0] != 5:
                                problem = f"a PDV under context id {pl[0][0]!r} instead of the message's"
                                break
                            got.append(bytes(pl[0][1]))
                        if isinstance(res, GenResult) and res.raised is not None and problem is None:
                            problem = f"the encoder raises {res.raised.kind} after {len(got)} fragment(s)"
                        # an empty data set: in memory nothing is announced and nothing is sent; a file that holds
                        # nothing after its File Meta was announced as a data set, so one empty 'last' fragment closes it
                        want = expect(cmd, pay, 0x01, 0x03) + (expect(data, pay, 0x00, 0x02) if data else [b"\x02"] if mode == "file" else [])
                        if problem is None and got != want:
                            def hd(v):
                                return [f"{x[0]:#04x}+{len(x) - 1}" for x in v][:8]
                            problem = f"fragments (control header + payload bytes) {hd(got)} instead of {hd(want)}"
                        if problem is not None:
                            bad.append((mx, lc, mode, ld, problem))
    except Unsupported as exc:
        rep.defer(f"{FQ}.encode_msg could not be evaluated ({exc})")
        return
    for mx, lc, mode, ld, problem in bad[:4]:
        rep.fail("overhead-count", f"{FQ}.encode_msg", f"peer maximum {mx}, command set of {lc} bytes, data set {'none' if ld is None else str(ld) + ' bytes (' + mode + ')'} -> {problem}", f"for this size encode_msg does not produce the fragments the receiver reassembles - {problem}: every part must be cut into consecutive slices of maximum - {k0} bytes (one fragment when the maximum is 0) with the 'last' bit on the last one only; otherwise the message never completes at the peer, completes early, or the send raises", mod=mod, node=enc)
    if not bad:
        rep.ok("overhead-count", f"{FQ}.encode_msg :: {n} (maximum, command length, data length, path) points", "fragments = consecutive payload-size slices, flags 01..03 then 00..02")
    rep.floor("encode_msg evaluation points", n, 150)


def check_file_offset(repo: Repo, rep: Report, rule: str = "file-offset") -> None:
    """For a file-backed C-STORE the data set is 'the bytes of the file from <offset> on'; split_dataset()
    supplies the offset. It must be where the parser actually stopped after the last group-0002 element
    (`fp.tell()`), not a number computed from a value stored *in* the file: (0002,0000) File Meta Information
    Group Length is just data - stale or wrong in many files that read fine - and an offset derived from it
    puts the tail of the File Meta in front of the data set or cuts the data set's first bytes."""
    rep.rule(rule, "split_dataset() returns the position the File Meta parser stopped at (tell()), never an offset computed from the file's own group length")
    m = repo.mod("dsutils")
    fn = m.funcs.get("split_dataset")
    if fn is None:
        rep.defer("dsutils.split_dataset vanished")
        return
    n = 0
    for r in [r for r in walk_no_nested(fn) if isinstance(r, ast.Return) and r.value is not None]:
        v = r.value
        off = v.elts[1] if isinstance(v, ast.Tuple) and len(v.elts) == 2 else None
        if off is None:
            rep.defer(f"dsutils.split_dataset: `return {norm(v)[:40]}` is not (file meta, offset)")
            continue
        n += 1

        def is_tell(e):
            return isinstance(e, ast.Call) and isinstance(e.func, ast.Attribute) and e.func.attr == "tell" and not e.args

        srcs = [off]
        if isinstance(off, ast.Name):
            srcs = [a.value for a in walk_no_nested(fn) if isinstance(a, (ast.Assign, ast.AnnAssign)) and getattr(a, "value", None) is not None and any(norm(t) == off.id for t in (a.targets if isinstance(a, ast.Assign) else [a.target]))]
            srcs += [a for a in walk_no_nested(fn) if isinstance(a, ast.AugAssign) and norm(a.target) == off.id]
        bad = [x for x in srcs if not is_tell(x)]
        rep.check(bool(srcs) and not bad, rule, "dsutils.split_dataset", r, f"the data-set offset is {('`' + norm(bad[0])[:60] + '`') if bad else 'not assigned'} - not the position the parser stopped at: computed from values stored in the file (the group length element) it is wrong whenever that value is stale, and encode_msg then sends File Meta bytes in front of the data set or drops the data set's first bytes; the fragments are well-formed but do not reassemble to the data set", mod=m, node=bad[0] if bad else r)
    rep.floor("returns of split_dataset", n, 1)


def check_message_reset(repo: Repo, rep: Report) -> None:
    """The receiver accumulates fragments in DIMSEServiceProvider.message until decode_msg reports the message
    complete. From that point every way out of receive_primitive must drop the object (`self.message =
    None`) - or abort the association (Evt19) - so that the next message starts from an empty one: a
    completed message left in place has the next message's command fragments appended to its own."""
    rep.rule("message-reset", "once a message is complete every exit of receive_primitive resets self.message (or queues Evt19)")
    dm = repo.mod("dimse")
    fn = repo.func("dimse", "DIMSEServiceProvider.receive_primitive")
    fq = "dimse.DIMSEServiceProvider.receive_primitive"
    cfg = CFG(fn, body=body_nodoc(fn), local_exc_only=True)
    tests = [n for n in cfg.nodes if n.kind == "test" and norm(n.ast.test) in ("is_complete", "is_complete is True", "is_complete == True")]
    if len(tests) != 1:
        rep.defer(f"{fq}: the `is_complete` test was not found")
        return
    start = [m for m, l in tests[0].succ if l == "true"]

    pci = dm.classes.get("DIMSEServiceProvider")

    def _resets(stmts):
        return any(isinstance(x, ast.Assign) and norm(x.targets[0]) == "self.message" and norm(x.value) in ("None", "DIMSEMessage()") for x in stmts)

    def via(n):
        if n.kind != "stmt":
            return False
        if _resets([n.ast]):
            return True
        # ... or a method of the provider that does it unconditionally
        for c in calls_at(n):
            if isinstance(c.func, ast.Attribute) and norm(c.func.value) == "self" and pci is not None and c.func.attr in pci.methods and _resets(body_nodoc(pci.methods[c.func.attr])):
                return True
        return any(norm(c.func).endswith("event_queue.put") and c.args and norm(c.args[0]) == "'Evt19'" for c in calls_at(n))

    ok, w = (True, [])
    for s0 in start:
        if via(s0):
            continue
        ok, w = cfg.must_pass(s0, via, {cfg.exit.id})
        if not ok:
            break
    # the same for whatever else the provider accumulates while a message is being received (a byte / fragment
    # counter next to the message): it belongs to the message and must be reset with it
    accs = {}
    for x in walk_no_nested(fn):
        if isinstance(x, ast.AugAssign) and isinstance(x.target, ast.Attribute) and norm(x.target.value) == "self":
            accs.setdefault(x.target.attr, x)
        if isinstance(x, ast.Assign) and isinstance(x.targets[0], ast.Attribute) and norm(x.targets[0].value) == "self" and isinstance(x.value, ast.BinOp) and norm(x.value.left) == norm(x.targets[0]):
            accs.setdefault(x.targets[0].attr, x)
    for attr, site in sorted(accs.items()):
        def via_a(n, attr=attr):
            if n.kind != "stmt":
                return False
            if isinstance(n.ast, ast.Assign) and norm(n.ast.targets[0]) == f"self.{attr}" and isinstance(n.ast.value, ast.Constant):
                return True
            return any(norm(c.func).endswith("event_queue.put") and c.args and norm(c.args[0]) == "'Evt19'" for c in calls_at(n))

        ok_a, w_a = True, []
        for s0 in start:
            if via_a(s0):
                continue
            ok_a, w_a = cfg.must_pass(s0, via_a, {cfg.exit.id})
            if not ok_a:
                break
        rep.check(ok_a, "message-reset", fq, site, f"`self.{attr}` is accumulated while a message is received but not reset when the message is complete: it keeps growing over the whole association, so a limit or test written for one message eventually fires on an ordinary, conformant message (the association is aborted after enough traffic)", mod=dm, node=site, path=[f"L{x.line}" for x in w_a if x.ast is not None][-10:])
    rep.check(ok, "message-reset", fq, "complete message ... exit without `self.message = None`", "a path leaves receive_primitive after a message was completed without dropping the message object: the next message's fragments are appended to the finished one (its command set then decodes with stale elements, or not at all)", mod=dm, node=tests[0].ast, path=[f"L{x.line}" for x in w if x.ast is not None][-10:])
    # the reassembly state belongs to the provider: nobody else writes it. A message the peer has sent half of is
    # dropped (or replaced) by a write from another module - the remaining fragments then decode into an empty
    # message that cannot be converted back into a primitive
    ini = repo.func("dimse", "DIMSEServiceProvider.__init__")
    own = {t.attr for a in walk_no_nested(ini) if isinstance(a, (ast.Assign, ast.AnnAssign)) for t in (a.targets if isinstance(a, ast.Assign) else [a.target]) if isinstance(t, ast.Attribute) and norm(t.value) == "self"}
    state = {x for x in own if x in ("message",) or x.startswith("_msg") or "fragment" in x}
    rep.need("message" in own, "dimse.DIMSEServiceProvider.__init__ no longer sets self.message")
    from .c27 import pkg_modules

    n_w = 0
    for short, m in pkg_modules(repo):
        if short == "dimse" or short.startswith(("apps.", "tests.", "benchmarks.")):
            continue
        for a in ast.walk(m.tree):
            tgts = a.targets if isinstance(a, ast.Assign) else [a.target] if isinstance(a, (ast.AnnAssign, ast.AugAssign)) else [t for t in a.targets] if isinstance(a, ast.Delete) else []
            for t in tgts:
                if isinstance(t, ast.Attribute) and t.attr in state and (norm(t.value).endswith(".dimse") or norm(t.value) == "dimse"):
                    n_w += 1
                    rep.fail("message-reset", f"{short}.{qualname(a)}", a, f"`{norm(t)}` is written outside DIMSEServiceProvider: the message being reassembled from the peer's fragments belongs to receive_primitive alone - dropping it while a multi-fragment message is half received makes the remaining fragments an invalid message (Evt19, the association is aborted) and the primitive the peer sent is lost", mod=m, node=a)
    rep.ok("message-reset", f"pynetdicom :: reassembly state {sorted(state)} written only by DIMSEServiceProvider", f"{n_w} foreign writes")


def check_every_pdv_classified(repo: Repo, rep: Report, rule: str = "reader-bits") -> None:
    """decode_msg looks at each PDV's control header to tell command from data and last from not-last. Every
    iteration of its loop over the PDV list must reach that classification: an iteration that moves on before
    it (a PDV holding only the control header 'has nothing to append') drops the last-fragment bit of a
    zero-length last fragment, and the message never completes."""
    mod = repo.mod("dimse_messages")
    dec = repo.func("dimse_messages", "DIMSEMessage.decode_msg")
    fq = "dimse_messages.DIMSEMessage.decode_msg"
    cfg = CFG(dec, body=body_nodoc(dec), local_exc_only=True)
    heads = [n for n in cfg.nodes if n.kind == "iter" and norm(n.ast.iter).endswith("presentation_data_value_list")]
    if len(heads) != 1:
        rep.defer(f"{fq}: the loop over the PDV list was not found")
        return
    h = heads[0]

    def classifies(n):
        return n.kind == "test" and "control_header_byte" in norm(n.ast.test) and "&" in norm(n.ast.test)

    body_entry = [m for m, l in h.succ if l == "loop"]
    ok, w = True, []
    for s0 in body_entry:
        if classifies(s0):
            continue
        ok, w = cfg.must_pass(s0, classifies, {h.id, cfg.exit.id})
        if not ok:
            break
    rep.check(ok, rule, fq, "every PDV reaches the control-header tests", "an iteration of the PDV loop can end before the control header is looked at: the fragment - in particular a zero-length *last* fragment, legal under PS3.8 Annex E - is dropped together with its last-fragment bit, the message is never completed and the next message is appended to it", mod=mod, node=h.ast, path=[f"L{x.line}" for x in w if x.ast is not None][-8:])
