"""C21 - handler results map to response status and data as documented."""

from __future__ import annotations

import ast
import re
from pathlib import Path

from ..loader import AnalysisError, Repo, body_nodoc, dotted, norm, parent, walk_no_nested, enclosing, qualname, strip_cast
from ..report import Report
from .c26 import event_kinds, suppressing

LEVEL = "other"
EXPLANATION = (
    "Constants against the project's own documentation, plus sibling agreement. (dispatch) "
    "ServiceClass.validate_status and its inline re-implementation in Association._c_store_scp are "
    "reduced to the same decision list - Dataset with Status: copy the elements the response supports; "
    "Dataset without: 0xC001; int: as is; anything else: 0xC002 - in that order; the Verification SCP's "
    "documented deviation (any problem answers Success) is checked as such. (docs-codes) the 'pynetdicom "
    "... Statuses' tables of docs/service_classes/*.rst are parsed on every run into cause -> code per "
    "operation (find/get/move/store) - all tables of one operation must agree with each other - and "
    "compared with the codes the SCP implementations use for the same causes, the cause of each code "
    "site being decided structurally (the attempt block that contains the handler trigger, the `if exc` "
    "branch of the result loop, the block that converts the yielded sub-operation count, the blocks that "
    "take / use the yielded destination, the > 65535 test, the encode-failure branch), never from message "
    "text. (n-service) every DIMSE-N SCP answers a handler exception and an encode failure with 0x0110 as "
    "the handler documentation states. (data-flow) the data set encoded into a response is the object the "
    "handler supplied, wrapped once into the response's own data-set parameter. Not decided: that the data "
    "set reaches the requestor unchanged (C25/C18 hold the structural part)."
    " Fourth session: (encode-total) dsutils.encode returns None for whatever the pydicom writer raises; (reply-fresh) C17's fresh-message rule."
    " Fifth round: (handler-exception-status) via C20's attempt in either form; (status-override) an N-service replaces the status a handler returned only for the documented causes (dataset encoding failure, invalid status)."
    " Fifth round (end): (n-reply) the five DIMSE-N SCPs with a reply are evaluated (sa/nscp_eval.py, helpers followed) per status category x data set (non-empty / empty / None) x encoder (ok / fails), plus N-CREATE without an Affected SOP Instance UID: one response, the handler's status (0x0110 only for the documented causes), the handler's data set attached iff Success / Warning; the text rules on the same facts step aside where the reply is built in a helper."
    " Sixth round: (status-known) borrows C28's docs-agreement, which now compares documented ranges code by code."
)

CAUSE_PATTERNS = [
    ("missing-status", r"no \(0000,0900\)"),
    ("invalid-status", r"invalid status object"),
    ("handler-exception", r"Unhandled exception"),
    ("encode-failure", r"Failed to encode"),
    ("decode-failure", r"Failed to decode"),
    ("subop-count", r"invalid number of sub-operations"),
    ("destination-yield", r"failed to yield the \(address, port\)"),
    ("destination-invalid", r"failed to yield a valid \(address, port\)"),
    ("too-many", r"more than 65535"),
]


def parse_docs(root: Path):
    """-> list of (file, title, operation, {cause: code}, {code: description})"""
    out = []
    d = root / "docs" / "service_classes"
    for f in sorted(d.glob("*.rst")):
        lines = f.read_text().splitlines()
        title = None
        i = 0
        while i < len(lines):
            ln = lines[i]
            if i + 1 < len(lines) and ln.strip() and re.fullmatch(r"[~\-=^\"']{4,}", lines[i + 1].strip() or "x"):
                title = ln.strip()
            if ln.startswith("+==") and title and title.lower().startswith("pynetdicom"):
                # rows follow
                rows = []
                j = i + 1
                cur = None
                while j < len(lines) and (lines[j].startswith("|") or lines[j].startswith("+")):
                    if lines[j].startswith("|"):
                        cells = [c.strip() for c in lines[j].strip().strip("|").split("|")]
                        if cells and cells[0].lower().startswith("0x"):
                            cur = [cells[0], cells[1] if len(cells) > 1 else "", cells[-1]]
                            rows.append(cur)
                        elif cur is not None and cells:
                            cur[2] += " " + cells[-1]
                    j += 1
                tl = title.lower()
                if "(find)" in tl or "worklist" in tl or "relevant patient" in tl or "substance administration" in tl or "c-find" in tl:
                    op = "find"
                elif "(get)" in tl:
                    op = "get"
                elif "(move)" in tl:
                    op = "move"
                elif f.name in ("storage_service_class.rst", "non_patient_service_class.rst"):
                    op = "store"
                else:
                    op = "other"
                causes, codes = {}, {}
                for code, cat, desc in rows:
                    codes[int(code, 16)] = desc
                    for cname, pat in CAUSE_PATTERNS:
                        if re.search(pat, desc):
                            causes[cname] = int(code, 16)
                out.append((f.name, title, op, causes, codes))
                i = j
                continue
            i += 1
    return out


def const_int(e):
    e = strip_cast(e)
    return e.value if isinstance(e, ast.Constant) and isinstance(e.value, int) and not isinstance(e.value, bool) else None


def attempt_blocks(fn):
    return [w for w in walk_no_nested(fn) if isinstance(w, ast.With) and any(suppressing(i) for i in w.items)]


def block_status(w: ast.With):
    vals = [const_int(s.value) for s in w.body if isinstance(s, ast.Assign) and norm(s.targets[0]).endswith(".error_status")]
    return vals[0] if len(vals) == 1 else None


def classify_block(w: ast.With, dimse_events: set[str]) -> str:
    has_trigger = any(isinstance(c, ast.Call) and (dotted(c.func) or "") == "evt.trigger" and len(c.args) > 1 and (dotted(c.args[1]) or "").split(".")[-1] in dimse_events for s in w.body for c in ast.walk(s))
    if has_trigger:
        return "handler-exception"
    calls = [c for s in w.body for c in ast.walk(s) if isinstance(c, ast.Call)]
    nexts = [c for c in calls if dotted(c.func) == "next"]
    int_next = [c for c in calls if dotted(c.func) == "int" and c.args and isinstance(strip_cast(c.args[0]), ast.Call) and dotted(strip_cast(c.args[0]).func) == "next"]
    if int_next:
        return "subop-count"
    if nexts:
        return "destination-yield"
    if any(isinstance(n, ast.Name) and n.id == "destination" for s in w.body for n in ast.walk(s)):
        return "destination-invalid"
    return "other"


def run(repo: Repo, rep: Report, tier: str) -> None:
    rep.rule("dispatch", "validate_status and its inline sibling: Dataset+Status -> copy supported elements; Dataset without -> 0xC001; int -> as is; else -> 0xC002; in that order")
    rep.rule("docs-codes", "the failure code used for each cause equals the code the docs tables give for that operation; the docs tables of one operation agree")
    rep.rule("n-service", "DIMSE-N SCPs answer a handler exception / unencodable reply with 0x0110 (Processing failure) as documented")
    rep.rule("data-flow", "the data set put into a response is the object the handler supplied, encoded once, stored in the response's own data-set parameter")
    sc = repo.mod("service_class")
    am = repo.mod("association")
    kinds = event_kinds(repo)
    dimse_events = {k for k, v in kinds.items() if v == "InterventionEvent" and (k.startswith("EVT_C_") or k.startswith("EVT_N_"))}

    # ---- dispatch ---------------------------------------------------------------------
    def decision_list(fn, status_var, rsp_var, fq, mod):
        """-> list of (condition text, effect) read from the top-level if/elif chain on isinstance(status_var, ..)"""
        chain = [i for i in walk_no_nested(fn) if isinstance(i, ast.If) and norm(i.test) == f"isinstance({status_var}, Dataset)"]
        rep.need(len(chain) == 1, f"{fq}: `if isinstance({status_var}, Dataset)` not found")
        top = chain[0]
        out = []
        # Dataset branch
        inner = [i for i in top.body if isinstance(i, ast.If)]
        ok_inner = len(inner) == 1 and norm(inner[0].test) == f"'Status' in {status_var}"
        copy_ok = False
        missing_code = None
        if ok_inner:
            loops = [f for f in inner[0].body if isinstance(f, ast.For) and norm(f.iter) == status_var]
            if len(loops) == 1:
                ev = norm(loops[0].target)
                ifs = [i for i in loops[0].body if isinstance(i, ast.If) and norm(i.test) == f"hasattr({rsp_var}, {ev}.keyword)"]
                copy_ok = len(ifs) == 1 and [norm(s) for s in ifs[0].body] == [f"setattr({rsp_var}, {ev}.keyword, {ev}.value)"]
            sets = [const_int(s.value) for s in inner[0].orelse if isinstance(s, ast.Assign) and norm(s.targets[0]) == f"{rsp_var}.Status"]
            missing_code = sets[0] if len(sets) == 1 else None
        out.append(("dataset-with-status", "copy" if copy_ok else "?"))
        out.append(("dataset-without-status", missing_code))
        # elif int
        nxt = top.orelse[0] if len(top.orelse) == 1 and isinstance(top.orelse[0], ast.If) else None
        if nxt is not None and norm(nxt.test) == f"isinstance({status_var}, int)":
            eff = [norm(s) for s in nxt.body if isinstance(s, ast.Assign)]
            out.append(("int", "as-is" if eff == [f"{rsp_var}.Status = {status_var}"] else "?"))
            sets = [const_int(s.value) for s in nxt.orelse if isinstance(s, ast.Assign) and norm(s.targets[0]) == f"{rsp_var}.Status"]
            out.append(("other", sets[0] if len(sets) == 1 else None))
        else:
            out.append(("int", "?"))
            out.append(("other", None))
        return out, top

    vs = repo.func("service_class", "ServiceClass.validate_status")
    ps = [a.arg for a in vs.args.args]
    dl, top = decision_list(vs, ps[1], ps[2], "service_class.ServiceClass.validate_status", sc)
    cs = repo.func("association", "Association._c_store_scp")
    trig = [s for s in walk_no_nested(cs) if isinstance(s, ast.Assign) and isinstance(strip_cast(s.value), ast.Call) and (dotted(strip_cast(s.value).func) or "") == "evt.trigger"]
    rep.need(len(trig) == 1, "association._c_store_scp: handler result binding not found")
    dl2, top2 = decision_list(cs, norm(trig[0].targets[0]), "rsp", "association.Association._c_store_scp", am)
    docs = parse_docs(repo.root)
    rep.floor("docs status tables", len(docs), 20)
    # documented C001 / C002: every table that lists them must give the same meaning
    doc_missing = {t[3].get("missing-status") for t in docs if "missing-status" in t[3]}
    doc_invalid = {t[3].get("invalid-status") for t in docs if "invalid-status" in t[3]}
    rep.check(doc_missing == {0xC001} and doc_invalid == {0xC002}, "docs-codes", "docs/service_classes", f"missing Status -> {sorted(hex(x) for x in doc_missing)}, invalid status -> {sorted(hex(x) for x in doc_invalid)}", "the documentation itself must give one code per cause", mod=None)
    want = [("dataset-with-status", "copy"), ("dataset-without-status", 0xC001), ("int", "as-is"), ("other", 0xC002)]
    for name, got, node, mod in (("service_class.ServiceClass.validate_status", dl, top, sc), ("association.Association._c_store_scp", dl2, top2, am)):
        for (k, w), (k2, g) in zip(want, got):
            shown = hex(g) if isinstance(g, int) else g
            rep.check(g == w, "dispatch", name, f"{k}: {shown}", f"handler result '{k}' must give {hex(w) if isinstance(w, int) else w} (docs: 0xC001 = status Dataset without Status, 0xC002 = not a Dataset or int); got {shown}", mod=mod, node=node)
    rets = [r for r in walk_no_nested(vs) if isinstance(r, ast.Return)]
    rep.check(len(rets) == 1 and norm(rets[0].value) == ps[2], "dispatch", "service_class.ServiceClass.validate_status", "returns the response it was given", "callers rebind rsp to the result", mod=sc, node=vs)
    # callers pass the handler's status and their own rsp
    n_callers = 0
    for m in (sc, repo.mod("service_class_n")):
        for c in ast.walk(m.tree):
            if isinstance(c, ast.Call) and norm(c.func) == "self.validate_status":
                n_callers += 1
                st = enclosing(c, (ast.stmt,))
                ok = isinstance(st, ast.Assign) and norm(st.targets[0]) == "rsp" and len(c.args) == 2 and norm(c.args[1]) == "rsp"
                rep.check(ok, "dispatch", f"{m.name.replace('pynetdicom.', '')}.{qualname(c)}", st, "the validated response must replace rsp and be built from rsp", mod=m, node=c)
    rep.floor("validate_status callers", n_callers, 10)
    # Verification: documented deviation - any problem answers Success
    ve = repo.func("service_class", "VerificationServiceClass.SCP")
    hs = [h for t in walk_no_nested(ve) if isinstance(t, ast.Try) for h in t.handlers if h.type is not None and norm(h.type) == "Exception"]
    okv = len(hs) == 1 and any(isinstance(s, ast.Assign) and norm(s.targets[0]) == "rsp.Status" and const_int(s.value) == 0 for s in hs[0].body)
    rep.check(okv, "dispatch", "service_class.VerificationServiceClass.SCP", "handler exception / invalid status -> 0x0000", "the Verification SCP is documented to answer Success unless the handler returns a valid status", mod=sc, node=ve)

    # ---- docs codes ------------------------------------------------------------------------------
    by_op: dict[str, dict[str, set[int]]] = {}
    for fname, title, op, causes, codes in docs:
        for c, v in causes.items():
            by_op.setdefault(op, {}).setdefault(c, set()).add(v)
    for op, cm in sorted(by_op.items()):
        for c, vals in sorted(cm.items()):
            rep.check(len(vals) == 1, "docs-codes", f"docs/service_classes ({op})", f"{c}: {sorted(hex(v) for v in vals)}", "the documentation gives different codes for the same cause of the same operation", mod=None)
    rep.extra["documented_codes"] = {op: {c: sorted(hex(v) for v in vs_) for c, vs_ in cm.items()} for op, cm in by_op.items()}

    def doc(op, cause):
        v = by_op.get(op, {}).get(cause)
        return next(iter(v)) if v and len(v) == 1 else None

    impls = [
        ("find", "service_class", "ServiceClass._c_find_scp"),
        ("find", "service_class", "RelevantPatientInformationQueryServiceClass.SCP"),
        ("get", "service_class", "QueryRetrieveServiceClass._get_scp"),
        ("move", "service_class", "QueryRetrieveServiceClass._move_scp"),
        ("store", "service_class", "StorageServiceClass.SCP"),
        ("store", "association", "Association._c_store_scp"),
    ]
    n_sites = 0
    for op, mname, q in impls:
        fn = repo.func(mname, q)
        m = repo.mod(mname)
        fq = f"{mname}.{q}"
        found: dict[str, list] = {}
        for w in attempt_blocks(fn):
            cause = classify_block(w, dimse_events)
            code = block_status(w)
            found.setdefault(cause, []).append((code, w))
        # try/except Exception around the trigger (Relevant Patient, _c_store_scp)
        for t in [t for t in walk_no_nested(fn) if isinstance(t, ast.Try)]:
            has_trig = any(isinstance(c, ast.Call) and (dotted(c.func) or "") == "evt.trigger" and len(c.args) > 1 and (dotted(c.args[1]) or "").split(".")[-1] in dimse_events for s in t.body for c in ast.walk(s))
            if not has_trig:
                continue
            for h in t.handlers:
                if h.type is not None and norm(h.type) == "Exception":
                    sets = [const_int(s.value) for s in h.body if isinstance(s, ast.Assign) and norm(s.targets[0]) == "rsp.Status"]
                    found.setdefault("handler-exception", []).append((sets[0] if len(sets) == 1 else None, h))
        # the `if exc:` branch of the result loop
        for i in [i for i in walk_no_nested(fn) if isinstance(i, ast.If) and norm(i.test) == "exc"]:
            sets = [const_int(s.value) for s in i.body if isinstance(s, ast.Assign) and norm(s.targets[0]) in ("rsp_status", "rsp.Status")]
            found.setdefault("handler-exception", []).append((sets[0] if len(sets) == 1 else None, i))
        # too many matches
        for i in [i for i in walk_no_nested(fn) if isinstance(i, ast.If) and isinstance(i.test, ast.Compare) and isinstance(i.test.ops[0], ast.Gt) and const_int(i.test.comparators[0]) == 65535]:
            sets = [s for s in i.body if isinstance(s, ast.Assign) and norm(s.targets[0]) == "rsp.Status"]
            if not sets:
                continue  # e.g. the message-id wrap-around, not a response
            found.setdefault("too-many", []).append((const_int(sets[0].value) if len(sets) == 1 else None, i))
        # encode failure of the handler's data set (find only: the docs list it there)
        if op == "find":
            for c in [c for c in walk_no_nested(fn) if isinstance(c, ast.Call) and isinstance(c.func, ast.Name) and c.func.id == "encode"]:
                st = enclosing(c, (ast.stmt,))
                if not isinstance(st, ast.Assign):
                    continue
                derived = {norm(st.targets[0])}
                for _ in range(3):
                    for s_ in walk_no_nested(fn):
                        if isinstance(s_, ast.Assign) and isinstance(s_.targets[0], ast.Name) and any(isinstance(n, ast.Name) and n.id in derived for n in ast.walk(s_.value)):
                            derived.add(s_.targets[0].id)
                for i in [i for i in walk_no_nested(fn) if isinstance(i, ast.If) and any(isinstance(n, ast.Name) and n.id in derived for n in ast.walk(i.test))]:
                    for branch in (i.body, i.orelse):
                        sets = [s for s in branch if isinstance(s, ast.Assign) and norm(s.targets[0]) == "rsp.Status"]
                        if sets:
                            found.setdefault("encode-failure", []).append((const_int(sets[0].value) if len(sets) == 1 else None, i))
        for cause, sites in sorted(found.items()):
            if cause == "other":
                continue
            want_code = doc(op, cause)
            for code, node in sites:
                n_sites += 1
                if want_code is None:
                    rep.fail("docs-codes", fq, f"{cause}: {hex(code) if code is not None else '?'}", f"the documentation has no (single) code for cause '{cause}' of operation '{op}'", mod=m, node=node)
                    continue
                rep.check(code == want_code, "docs-codes", fq, f"{cause}: {hex(code) if code is not None else 'not a constant'}", f"for '{cause}' the docs tables of the {op} operation give {hex(want_code)}, the code answers {hex(code) if code is not None else 'something else'}", mod=m, node=node)
        # every documented cause that the code can produce must be found at least once
        need = {"find": {"handler-exception", "encode-failure"}, "get": {"handler-exception", "subop-count", "too-many"}, "move": {"handler-exception", "subop-count", "destination-yield", "destination-invalid", "too-many"}, "store": {"handler-exception"}}[op]
        if q.endswith("RelevantPatientInformationQueryServiceClass.SCP") or q.endswith("_c_store_scp") or q.endswith("StorageServiceClass.SCP"):
            need = need & {"handler-exception", "encode-failure"}
        missing = sorted(need - set(found))
        rep.check(not missing, "docs-codes", fq, f"causes located: {sorted(k for k in found if k != 'other')}", f"no code site was found for the documented cause(s) {missing}: that failure is no longer answered with its documented code", mod=m, node=fn)
    rep.floor("failure-code sites compared with the docs", n_sites, 14)

    # ---- DIMSE-N ------------------------------------------------------------------------------------------
    nfun = ["_n_action_scp", "_n_create_scp", "_n_delete_scp", "_n_event_report_scp", "_n_get_scp", "_n_set_scp"]
    hd = repo.mod("_handlers")
    documented_0110 = sum(1 for ln in hd.path.read_text().splitlines() if "0x0110" in ln and "Processing" in ln)
    rep.floor("handler docstrings naming 0x0110", documented_0110, 6)
    n_eval = check_n_reply_evaluated(repo, rep)
    for nm in nfun:
        fn = repo.func("service_class", f"ServiceClass.{nm}")
        fq = f"service_class.ServiceClass.{nm}"
        blocks = [w for w in attempt_blocks(fn) if classify_block(w, dimse_events) == "handler-exception"]
        rep.check(len(blocks) == 1 and block_status(blocks[0]) == 0x0110, "n-service", fq, f"handler exception -> {hex(block_status(blocks[0])) if blocks and block_status(blocks[0]) is not None else '?'}", "a DIMSE-N handler exception is documented to be answered with 0x0110 (Processing failure)", mod=sc, node=blocks[0] if blocks else fn)
        for c, _d in encode_sites(repo, fn):
            st = enclosing(c, (ast.stmt,))
            v = norm(st.targets[0]) if isinstance(st, ast.Assign) else None
            if v is None and n_eval.get(nm):
                continue  # encoded inside a helper: the 0x0110 answer is decided by the evaluation (n-reply)
            ifs = [i for i in walk_no_nested(fn) if isinstance(i, ast.If) and v and norm(i.test) in (f"{v} is not None", f"{v} is None")]
            ok = False
            for i in ifs:
                fail_body = i.orelse if norm(i.test) == f"{v} is not None" else i.body
                sets = [const_int(s.value) for s in fail_body if isinstance(s, ast.Assign) and norm(s.targets[0]) == "rsp.Status"]
                ok = ok or sets == [0x0110]
            rep.check(ok, "n-service", fq, st, "an unencodable reply data set must be answered with 0x0110 (Processing failure)", mod=sc, node=c)

    # the handler's status stands: after validate_status() the SCP may replace it by a constant only for a cause the
    # documentation names - and the N-CREATE rule "the response needs an Affected SOP Instance UID" (PS3.7
    # 10.1.5.1.4) applies to a *successful* creation only: a Warning / Failure the handler returned keeps its status,
    # its comment and its attribute list
    for nm in nfun:
        fn = repo.func("service_class", f"ServiceClass.{nm}")
        fq = f"service_class.ServiceClass.{nm}"
        vs = [s_ for s_ in walk_no_nested(fn) if isinstance(s_, ast.Assign) and norm(s_.targets[0]) == "rsp" and "validate_status" in norm(s_.value)]
        if not vs:
            continue
        for ov in [s_ for s_ in walk_no_nested(fn) if isinstance(s_, ast.Assign) and norm(s_.targets[0]) == "rsp.Status" and const_int(s_.value) is not None and s_.lineno > vs[0].lineno]:
            conds = []
            g = enclosing(ov, (ast.If,))
            child = ov
            while g is not None and enclosing(g, (ast.FunctionDef,)) is fn:
                in_body = any(child is x or any(child is y for y in ast.walk(x)) for x in g.body)
                t = g.test
                parts = list(t.values) if isinstance(t, ast.BoolOp) and isinstance(t.op, ast.And) else [t]
                conds += [(norm(p_), in_body) for p_ in parts]
                child, g = g, enclosing(g, (ast.If,))
            texts = [c_ for c_, pol in conds if pol]
            encode_cause = any(" is None" in c_ or c_.startswith("not ") for c_ in texts) and any("bytestream" in c_ or "encoded" in c_ or "data" in c_.lower() for c_ in texts)
            uid_cause = any("AffectedSOPInstanceUID" in c_ for c_ in texts) or any("AffectedSOPInstanceUID" in c_ for c_, pol in conds)
            if uid_cause and n_eval.get(nm) == "uid":
                pass  # decided by the evaluation (n-reply, N-CREATE without an Affected SOP Instance UID)
            elif uid_cause:
                okc = any(c_.replace(" ", "") in ("status[0]==STATUS_SUCCESS", "STATUS_SUCCESS==status[0]") for c_ in texts)
                rep.check(okc, "n-service", fq, ov, f"the handler's status is replaced by {hex(const_int(ov.value))} for a missing Affected SOP Instance UID under {texts}: that requirement holds for a successful N-CREATE only - a Warning (0xB300, 0xB605 ...) or any other non-Failure status the handler returned is answered with 0x0110 and without its attribute list instead of as documented", mod=sc, node=ov)
            elif not encode_cause:
                rep.check(False, "n-service", fq, ov, f"after validate_status() the handler's status is replaced by {hex(const_int(ov.value))} under {texts or 'no condition'}: the documented causes for that are an unencodable reply and (N-CREATE, on success) a missing Affected SOP Instance UID", mod=sc, node=ov)

    # ---- data flow ------------------------------------------------------------------------------------------------
    DATA_ATTR = {"_n_action_scp": "ActionReply", "_n_create_scp": "AttributeList", "_n_event_report_scp": "EventReply", "_n_get_scp": "AttributeList", "_n_set_scp": "AttributeList", "_c_find_scp": "Identifier"}
    for nm, attr in DATA_ATTR.items():
        fn = repo.func("service_class", f"ServiceClass.{nm}")
        fq = f"service_class.ServiceClass.{nm}"
        if nm.startswith("_n_") and n_eval.get(nm) and not any(isinstance(c_, ast.Call) and isinstance(c_.func, ast.Name) and c_.func.id == "encode" for c_ in walk_no_nested(fn)):
            # the reply is encoded and attached in a helper: what reaches the response is decided by the evaluation above
            rep.ok("data-flow", f"{fq} :: reply built in a helper", "decided by evaluating the SCP with its helpers (n-reply)")
            continue
        # the variable unpacked from the handler's result
        unpack = [s for s in walk_no_nested(fn) if isinstance(s, ast.Assign) and isinstance(s.targets[0], ast.Tuple) and len(s.targets[0].elts) == 2 and norm(strip_cast(s.value)) in ("user_response", "result")]
        rep.need(len(unpack) == 1, f"{fq}: handler result unpacking not found")
        dsv = norm(unpack[0].targets[0].elts[1])
        encs = encode_sites(repo, fn)
        rep.need(len(encs) == 1, f"{fq}: expected one encode call (directly or through one helper method), found {len(encs)}")
        enc_call, enc_data = encs[0]
        rep.check(enc_data is not None and norm(strip_cast(enc_data)) == dsv, "data-flow", fq, enclosing(enc_call, (ast.stmt,)), f"the encoded object must be the data set the handler supplied ({dsv})", mod=sc, node=enc_call)
        encs = [enc_call]
        ev = norm(enclosing(encs[0], (ast.stmt,)).targets[0])
        sets = [s for s in walk_no_nested(fn) if isinstance(s, ast.Assign) and norm(s.targets[0]) == f"rsp.{attr}" and not (isinstance(s.value, ast.Constant) and s.value.value is None)]
        ok = len(sets) == 1 and norm(sets[0].value) == f"BytesIO({ev})"
        if len(sets) == 1 and isinstance(sets[0].value, ast.Name):
            # one step of indirection: v = BytesIO(cast(bytes, enc)); rsp.X = v
            dv = [s_ for s_ in walk_no_nested(fn) if isinstance(s_, ast.Assign) and norm(s_.targets[0]) == sets[0].value.id]
            ok = len(dv) == 1 and isinstance(dv[0].value, ast.Call) and dotted(dv[0].value.func) == "BytesIO" and len(dv[0].value.args) == 1 and norm(strip_cast(dv[0].value.args[0])) == ev
        rep.check(ok, "data-flow", fq, sets[0] if sets else f"rsp.{attr} = ..", f"the response's {attr} must be exactly the encoded handler data set (BytesIO({ev}))", mod=sc, node=sets[0] if sets else fn)
        # the handler's variable is not modified between unpacking and encoding (cast / None-reset only)
        muts = [s for s in walk_no_nested(fn) if isinstance(s, ast.Assign) and norm(s.targets[0]) == dsv and s is not unpack[0] and not (isinstance(s.value, ast.Constant) and s.value.value is None) and norm(strip_cast(s.value)) != dsv]
        rep.check(not muts, "data-flow", fq, muts[0] if muts else f"{dsv} only bound from the handler result", "the handler's data set is replaced before it is encoded", mod=sc, node=muts[0] if muts else fn)
    check_handler_dataset_replacement(repo, rep)
    check_handler_block_minimal(repo, rep, dimse_events)
    check_encode_total(repo, rep)
    from ..delegate import delegate as _delegate21
    rep.rule("handler-exception-status", "whatever a handler's block ends with is turned by `attempt` into exactly one response carrying the documented failure status (C20's attempt rule)")
    _delegate21(repo, rep, tier, "C20", ("attempt",), "handler-exception-status", "a handler that ends with an exception `attempt` does not catch gets no response at all instead of the documented failure status (0xC211 for C-STORE, 0x0110 for DIMSE-N)")
    from .c17 import check_fresh_message
    check_fresh_message(repo, rep, "reply-fresh")
    from ..delegate import delegate
    rep.rule("reply-delivered", "the response (status and data set) is cut into fragments the requestor can reassemble for every length (C15's fragmentation rules)")
    delegate(repo, rep, tier, "C15", ("overhead", "overhead-count", "order-flags", "one-pdv"), "reply-delivered", "for some reply sizes the response carrying the handler's status and data set is never completed on the wire: the requestor gets neither")
    rep.rule("status-known", "every status (and every code of every status range) the documentation lists for a service is known to that service's table (C28's docs-agreement)")
    delegate(repo, rep, tier, "C28", ("docs-agreement",), "status-known", "a handler returning that documented status is answered through the 'unknown status' branch: the status goes out bare, without the data set / identifier the handler supplied and without the sub-operation counts")
    rep.rule("reply-syntax", "every encode / decode of a data set takes all three flags (implicit VR, byte order, deflated) from one transfer-syntax object (C25's codec-flags rule)")
    delegate(repo, rep, tier, "C25", ("codec-flags",), "reply-syntax", "the data set the handler supplied reaches the peer in a different encoding than the context's transfer syntax (e.g. not deflated on a Deflated context): the peer cannot read the reply's data set although the status says Success")


def encode_sites(repo: Repo, fn: ast.AST) -> list[tuple[ast.Call, ast.AST | None]]:
    """where `fn` encodes a data set: direct `encode(x, ..)` calls, and calls `self.<helper>(..)` of a
    ServiceClass method that itself does nothing but one `encode(<its parameter>, ..)` (the 'encode the
    reply' helper a refactor may introduce). -> [(call in fn, the expression of fn that is encoded)]"""
    out = []
    ci = repo.cls("service_class", "ServiceClass")
    for c in walk_no_nested(fn):
        if not isinstance(c, ast.Call):
            continue
        if isinstance(c.func, ast.Name) and c.func.id == "encode" and c.args:
            out.append((c, c.args[0]))
        elif isinstance(c.func, ast.Attribute) and norm(c.func.value) == "self":
            _, h = repo.lookup_method(ci, c.func.attr, "method")
            if h is None or h is fn:
                continue
            inner = [x for x in walk_no_nested(h) if isinstance(x, ast.Call) and isinstance(x.func, ast.Name) and x.func.id == "encode" and x.args]
            if len(inner) != 1:
                continue
            params = [a.arg for a in h.args.args][1:]
            src = strip_cast(inner[0].args[0])
            data = None
            if isinstance(src, ast.Name) and src.id in params:
                k = params.index(src.id)
                if k < len(c.args):
                    data = c.args[k]
                else:
                    kw = [x.value for x in c.keywords if x.arg == src.id]
                    data = kw[0] if kw else None
            out.append((c, data))
    return out


def check_handler_dataset_replacement(repo: Repo, rep: Report) -> None:
    """C-GET / C-MOVE: the Identifier a handler yields with a Cancel / Failure / Warning status reaches
    the requestor; the SCP may substitute its own only when the handler supplied none."""
    sc = repo.mod("service_class")
    n = 0
    for q in ("QueryRetrieveServiceClass._get_scp", "QueryRetrieveServiceClass._move_scp"):
        fn = repo.func("service_class", q)
        fq = f"service_class.{q}"
        unpack = [s for s in walk_no_nested(fn) if isinstance(s, ast.Assign) and isinstance(s.targets[0], ast.Tuple) and len(s.targets[0].elts) == 2 and norm(strip_cast(s.value)) == "result"]
        rep.need(len(unpack) == 1, f"{fq}: handler result unpacking not found")
        dsv = norm(unpack[0].targets[0].elts[1])
        loop = enclosing(unpack[0], (ast.For,))
        rep.need(loop is not None, f"{fq}: result loop not found")
        for s in [x for b in loop.body for x in ast.walk(b) if isinstance(x, ast.Assign)]:
            if norm(s.targets[0]) != dsv or s is unpack[0]:
                continue
            v = strip_cast(s.value)
            if (isinstance(v, ast.Constant) and v.value is None) or norm(v) == dsv:
                continue
            n += 1
            g = enclosing(s, (ast.If,))
            ok = g is not None and any(x is s for x in g.body)
            disj = []
            if ok:
                disj = g.test.values if isinstance(g.test, ast.BoolOp) and isinstance(g.test.op, ast.Or) else [g.test]
                ok = all(any(isinstance(nm, ast.Name) and nm.id == dsv for nm in ast.walk(d)) for d in disj)
            rep.check(ok, "data-flow", fq, s, f"the handler's data set `{dsv}` is replaced under `{norm(g.test) if g is not None else 'no condition'}`: a condition that does not depend on what the handler supplied discards a valid Identifier (e.g. its own Failed SOP Instance UID List) - the requestor receives a different data set than the handler returned", mod=sc, node=s)
    rep.floor("handler data-set replacement sites (C-GET / C-MOVE)", n, 2)


def check_encode_total(repo: Repo, rep: Report, rule: str = "encode-total") -> None:
    """The SCPs decide 'the handler's data set cannot be encoded -> documented failure status' by testing
    dsutils.encode()'s result for None. That only works while encode() is total: whatever the pydicom writer
    raises on a user-supplied data set (pydicom reports out-of-range values as OSError / struct.error, not
    only TypeError / ValueError) must end in `return None`, so every call that is handed the data set sits in
    a try with a catch-all handler that does not re-raise."""
    rep.rule(rule, "dsutils.encode() returns None for whatever the pydicom writer raises: every call given the data set is inside a catch-all try")
    m = repo.mod("dsutils")
    fn = repo.func("dsutils", "encode")
    dsp = fn.args.args[0].arg
    n = 0
    for c in walk_no_nested(fn):
        if not (isinstance(c, ast.Call) and any(isinstance(a, ast.Name) and a.id == dsp for a in list(c.args) + [k.value for k in c.keywords])):
            continue
        if norm(c.func) in ("isinstance", "cast", "len", "id", "type") or norm(c.func).startswith("LOGGER."):
            continue
        n += 1
        t = enclosing(c, (ast.Try,))
        ok = False
        while t is not None and not ok:
            in_body = any(c is x for s_ in t.body for x in ast.walk(s_))
            for h in t.handlers if in_body else []:
                names = [] if h.type is None else [norm(x) for x in h.type.elts] if isinstance(h.type, ast.Tuple) else [norm(h.type)]
                if (h.type is None or "Exception" in names or "BaseException" in names) and not any(isinstance(r, ast.Raise) for r in ast.walk(h)) and any(isinstance(r, ast.Return) and (r.value is None or (isinstance(r.value, ast.Constant) and r.value.value is None)) for r in ast.walk(h)):
                    ok = True
            t = enclosing(t, (ast.Try,))
        rep.check(ok, rule, "dsutils.encode", enclosing(c, (ast.stmt,)) or c, f"`{norm(c)[:40]}` is given the caller's data set outside a try whose catch-all handler returns None: an exception of another type than the ones listed (pydicom raises OSError / struct.error for out-of-range values, KeyError for unknown tags) leaves encode(), the SCP's `is None` test never runs, the exception reaches _serve_request and the association is aborted instead of the documented 'cannot encode' failure status being sent", mod=m, node=c)
    rep.floor("calls of dsutils.encode given the data set", n, 1)


PURE_IN_HANDLER_BLOCK = {"evt.trigger", "isinstance", "hasattr", "setattr", "getattr", "cast", "next", "int", "len", "str", "bool", "iter", "AttributeError", "TypeError", "ValueError", "RuntimeError", "Dataset"}


def check_handler_block_minimal(repo: Repo, rep: Report, dimse_events: set[str]) -> None:
    """The try / `with attempt(..)` block around an intervention trigger turns whatever it catches into the
    documented 'handler raised' failure status. It must therefore contain nothing else that can raise: a
    clean-up call (close, unlink, a send) placed inside it without its own try has its exception reported as
    the handler's, and the status - and status data set - the handler actually returned are replaced."""
    rep.rule("status-preserved", "inside the block that maps handler exceptions to a failure status nothing but the trigger can raise (other calls carry their own try)")
    n = 0
    for mname in ("service_class", "association"):
        m = repo.mod(mname)
        for fn in [f for f in ast.walk(m.tree) if isinstance(f, ast.FunctionDef)]:
            blocks = []
            for t in walk_no_nested(fn):
                trig_in = lambda body: any(isinstance(c, ast.Call) and dotted(c.func) == "evt.trigger" and len(c.args) > 1 and (dotted(c.args[1]) or "").split(".")[-1] in dimse_events for s_ in body for c in ast.walk(s_))  # noqa: E731
                if isinstance(t, ast.Try) and trig_in(t.body) and any(h.type is not None and norm(h.type) == "Exception" for h in t.handlers):
                    blocks.append((t, t.body))
                if isinstance(t, ast.With) and any(suppressing(i) for i in t.items) and trig_in(t.body):
                    blocks.append((t, t.body))
            for owner, body in blocks:
                n += 1
                fq = f"{mname}.{qualname(fn)}"
                bad = []
                for s_ in body:
                    for c in ast.walk(s_):
                        if not isinstance(c, ast.Call):
                            continue
                        name = norm(c.func)
                        if name in PURE_IN_HANDLER_BLOCK or name.startswith("LOGGER."):
                            continue
                        if isinstance(c.func, ast.Attribute) and c.func.attr == "close" and not c.args:
                            continue  # closing a file object does not depend on what the handler did with the path
                        inner = enclosing(c, (ast.Try,))
                        guarded = False
                        while inner is not None and inner is not owner and any(y is inner for s2 in body for y in ast.walk(s2)):
                            if any(c in list(ast.walk(s3)) for s3 in inner.body) and inner.handlers:
                                guarded = True
                                break
                            inner = enclosing(inner, (ast.Try,))
                        if not guarded:
                            bad.append(c)
                for c in bad:
                    rep.fail("status-preserved", fq, enclosing(c, (ast.stmt,)) or c, f"`{norm(c)[:50]}` runs inside the block whose exceptions are reported as the handler's: if it raises (a file the handler moved, a closed socket) the response carries the 'handler raised' failure code instead of the status - and status data set - the handler returned", mod=m, node=c)
                if not bad:
                    rep.ok("status-preserved", f"{fq} :: handler block at line {owner.lineno}", "only the trigger can raise")
    rep.floor("handler blocks inspected", n, 8)


def check_n_reply_evaluated(repo: Repo, rep: Report, rule: str = "n-reply") -> dict:
    """What a DIMSE-N SCP answers for a handler that returned (status, data set), decided by evaluating the SCP
    (sa/nscp_eval.py; helper methods are followed) for one status of every category of the richest status table
    and an unknown one, a data set that is non-empty / empty / None, and an encoder that works / fails:
    exactly one response, on the request's context, carrying the request's message ID and the handler's status
    (0x0110 only when the reply could not be encoded); the handler's data set - that object, encoded with the three
    flags of the context's transfer syntax - is attached as the service's reply attribute exactly when the status
    is Success or Warning and the data set is not empty; no other response carries a data set."""
    from ..minipy import Raised, Unsupported
    from ..nscp_eval import N_SCPS, NScpEval

    rep.rule(rule, "DIMSE-N SCPs evaluated per status category: one response with the handler's status; the handler's data set is attached (encoded with the context's transfer syntax) iff the status is Success or Warning")
    done = {}
    try:
        ev = NScpEval(repo)
    except AnalysisError as exc:
        rep.defer(f"DIMSE-N SCP evaluation not possible: {exc}")
        return done
    sc = repo.mod("service_class")
    n = 0
    for fname, (prim, event, attr) in N_SCPS.items():
        fq = f"service_class.ServiceClass.{fname}"
        _, fn = repo.lookup_method(repo.cls("service_class", "ServiceClass"), fname, "method")
        bad = None
        try:
            for cat, code in ev.codes.items():
                for n_elems in (2, 0, None):
                    for enc_ok in (True, False):
                        r = ev.run(fname, code, n_elems, enc_ok)
                        n += 1
                        inst = f"handler returns ({hex(code)} [{cat}], {'a data set' if n_elems else 'an empty data set' if n_elems == 0 else 'None'}){'' if enc_ok else ', encoding fails'}"
                        if r["raised"]:
                            bad = (inst, f"raises {r['raised']} out of the SCP: no response is sent")
                            break
                        if len(r["sent"]) != 1:
                            bad = (inst, f"{len(r['sent'])} responses are sent: a DIMSE-N request gets exactly one")
                            break
                        rsp, cx, status, data = r["sent"][0]
                        if cx != 3 or rsp.attrs.get("MessageIDBeingRespondedTo") != 7:
                            bad = (inst, f"the response goes out on context {cx!r} with MessageIDBeingRespondedTo {rsp.attrs.get('MessageIDBeingRespondedTo')!r}: not the request's (3, 7)")
                            break
                        gate = cat in ("Success", "Warning") and bool(n_elems)
                        want_status = 0x0110 if gate and not enc_ok else code
                        if status != want_status:
                            bad = (inst, f"the response carries status {hex(status) if isinstance(status, int) else status!r}, documented: {hex(want_status)}")
                            break
                        want_data = {attr: ("BytesIO", b"<encoded>")} if gate and enc_ok else {}
                        if data != want_data:
                            got = sorted(data) or "no data set"
                            bad = (inst, f"the response carries {got}; documented: {'the encoded reply as ' + attr if want_data else 'no data set'} - only a Success or Warning response of a DIMSE-N service has a reply data set (the requestor's SCU reads one only then), and the handler's data set is the one that is sent")
                            break
                        if gate:
                            okenc = len(r["encoded"]) == 1 and r["encoded"][0][0] is r["ds"] and tuple(r["encoded"][0][1]) == ("ts.implicit", "ts.little", "ts.deflated")
                            if not okenc:
                                bad = (inst, f"the reply is encoded from {[('the handler data set' if e_[0] is r['ds'] else repr(e_[0])[:30], e_[1]) for e_ in r['encoded']]}: it must be the handler's data set, with (is_implicit_VR, is_little_endian, is_deflated) of the context's transfer syntax")
                                break
                    if bad:
                        break
                if bad:
                    break
        except Unsupported as exc:
            rep.defer(f"{fq}: not evaluable with stand-ins ({exc})")
            continue
        done[fname] = True
        if not bad and fname == "_n_create_scp":
            # PS3.7 10.1.5.1.4: the response to a *successful* N-CREATE needs an Affected SOP Instance UID - from the
            # request, else from the handler's attribute list (moved out of it), else 0x0110; any other status stands
            try:
                for cat, code in ev.codes.items():
                    for ds_uid in ("1.2.840.ds", None):
                        r = ev.run(fname, code, 2, True, req_uid=None, ds_uid=ds_uid)
                        n += 1
                        inst = f"request without Affected SOP Instance UID; handler returns ({hex(code)} [{cat}], a data set {'with' if ds_uid else 'without'} one)"
                        if r["raised"] or len(r["sent"]) != 1:
                            bad = (inst, f"{'raises ' + r['raised'] if r['raised'] else str(len(r['sent'])) + ' responses'}: the request gets exactly one response")
                            break
                        rsp, cx, status, data = r["sent"][0]
                        lost = cat == "Success" and ds_uid is None
                        want_status = 0x0110 if lost else code
                        want_data = cat in ("Success", "Warning") and not lost
                        if status != want_status or bool(data) != want_data:
                            bad = (inst, f"answered with status {hex(status) if isinstance(status, int) else status!r} {'and' if data else 'without'} a data set; documented: {hex(want_status)} {'with' if want_data else 'without'} the attribute list - the missing-UID failure applies to a successful creation only, a Warning / Failure / other status the handler returned stands")
                            break
                        if cat == "Success" and ds_uid is not None and (rsp.attrs.get("AffectedSOPInstanceUID") != ds_uid or "AffectedSOPInstanceUID" in r["ds"].attrs):
                            bad = (inst, "the Affected SOP Instance UID of the handler's attribute list must be moved into the response")
                            break
                    if bad:
                        break
                done[fname] = "uid"
            except Unsupported as exc:
                rep.note(f"{fq}: the missing-UID scenarios are not evaluable with stand-ins ({exc}); the structural rule applies") if hasattr(rep, "note") else None
        if bad:
            rep.fail(rule, fq, bad[0], bad[1], mod=sc, node=fn)
        else:
            rep.ok(rule, f"{fq} :: {len(ev.codes)} status categories x 3 data sets x encoder ok / fails", f"table {ev.table_name}")
    rep.floor("DIMSE-N SCP evaluations", n, 100)
    return done
