"""C02 - arbitrary received bytes never crash the provider or yield unstable PDUs."""

from __future__ import annotations

import ast
import json

from ..cfg import CFG, typestate, witness, calls_at
from ..lin import Lin
from ..loader import AnalysisError, Repo, body_nodoc, dotted, norm, walk_no_nested, enclosing, strip_cast
from ..pdu_model import PduModel
from ..reactor_model import ReactorModel
from ..lints import no_swallow
from ..report import Report, VERIF
from .c01 import code_layout, expected_len
from .c05 import check_survival

LEVEL = "other"
EXPLANATION = (
    "Four structural clauses. (containment) in _read_pdu_data every outcome - socket error, short "
    "header, unknown type, short body, any exception while decoding - queues exactly one of "
    "Evt17/Evt19 and returns; the type and length tests dominate the decode call; a decoded PDU is "
    "queued together with its event. (escape) a package-internal escape analysis from the 28 "
    "action functions lists every explicit non-TypeError raise reachable without a handler on the "
    "to_primitive() path of the PDU class each action receives; each must be pre-empted by the "
    "same conversion running inside the Evt19 guard, and DIMSE decoding inside DT-2/AR-6 must be "
    "guarded. (termination) every cursor loop of the item decoders and of AssociationSocket.recv "
    "advances by a positive literal plus non-negative terms, or exits. (re-encode) each length "
    "property covers exactly the collection its encoder emits for *any* number of decoded "
    "elements (C01's length rule without the spec's multiplicity assumption). Not decided: that "
    "every PS3.8-conformant PDU is accepted, and value-level re-encode fixed points over all "
    "byte strings (string stripping / codecs)."
    ' Second session: no except clause in the codec modules may swallow a failed item conversion (three read sites excepted); the 6-byte header is parsed only under a guard that turns a short header into Evt17 (try/except struct.error or a dominating length test), with type and length taken from bytes [0] and [2:6] big-endian whatever the spelling; every codec item loop hands on each item or raises.'
    ' Fourth session: (pdv-not-dropped, state-per-message) borrowed from C15 - every PDV of a P-DATA-TF is classified and used, and what the DIMSE provider accumulates per message is reset with the message.'
    " Fifth round: (malformed-is-invalid) borrowed from C01's evaluation of the item generators on malformed streams; the termination rule accepts `cursor = cursor + E`, `cursor = nxt` and generators that delegate with `yield from`; the 6-byte header may be held in a local bound to the read."
)


def run(repo: Repo, rep: Report, tier: str) -> None:
    from ..lints import decoder_loops_complete
    rep.rule("decoder-complete", "every item loop of the codec hands on each item it frames or raises")
    rep.floor("codec item loops", decoder_loops_complete(repo, rep, "decoder-complete", None), 6)
    rep.rule("containment", "_read_pdu_data: every failure queues exactly one Evt17/Evt19 and returns; type and length checks dominate decoding; decode is inside try/except Exception")
    rep.rule("escape", "no unhandled explicit raise on peer data reachable from an action (pre-validated under the Evt19 guard); DIMSE decoding guarded")
    rep.rule("termination", "decoder cursor loops advance by a positive amount on every path through the body")
    rep.rule("re-encode", "length properties cover exactly what the encoder emits for any number of decoded elements")
    rep.rule("no-swallow", "no except clause in the PDU codec swallows a failed item conversion (an invalid item fails the PDU -> Evt19 -> A-ABORT)")
    rep.floor("codec except clauses", no_swallow(repo, rep, "no-swallow"), 3)
    rm = ReactorModel(repo)
    dul = rm.dul
    rd = repo.func("dul", "DULServiceProvider._read_pdu_data")
    fq = "dul.DULServiceProvider._read_pdu_data"
    cfg = CFG(rd, body=body_nodoc(rd), local_exc_only=True)

    # ---- containment ----------------------------------------------------------
    def puts(n):
        return [c for c in calls_at(n) if dotted(c.func) == "self.event_queue.put"]

    dec_nodes = [n for n in cfg.nodes if n.kind == "stmt" and any(dotted(c.func) == "self._decode_pdu" for c in calls_at(n))]
    rep.need(len(dec_nodes) == 1, f"{fq}: decode call site not found")
    dec = dec_nodes[0]
    fails = []

    def transfer(n, st):
        nput, kinds, queued = st
        if n.kind == "stmt":
            for c in puts(n):
                nput = min(nput + 1, 2)
                a = c.args[0]
                kinds = kinds | {a.value if isinstance(a, ast.Constant) else "<decoded>"}
            if any(dotted(c.func) == "self._recv_pdu.put" for c in calls_at(n)):
                queued = True
        other = {l for _, l in n.succ if l != "exc"}
        # an `exc` edge means the statement did not complete: its effects are not counted
        return [((nput, kinds, queued), other), (st, {"exc"})]

    ins, pred = typestate(cfg, (0, frozenset(), False), transfer)
    n_exit = 0
    for st in ins.get(cfg.exit.id, ()):
        n_exit += 1
        nput, kinds, queued = st
        ok = nput == 1 and ((queued and kinds == {"<decoded>"}) or (not queued and kinds <= {"Evt17", "Evt19"} and kinds))
        if not ok:
            fails.append(st)
    for st in fails:
        rep.fail("containment", fq, f"exit with {st[0]} events {sorted(st[1])}, PDU queued={st[2]}", "every way out of _read_pdu_data must queue exactly one event: Evt17/Evt19 without a PDU, or the decoded PDU's event together with the PDU", mod=dul, node=rd, path=witness(cfg, pred, cfg.exit, st))
    if not fails:
        rep.ok("containment", f"{fq} :: {n_exit} exit states", "one event per outcome")
    rep.check(cfg.raise_exit.id not in ins or not ins[cfg.raise_exit.id], "containment", fq, "no modelled exception leaves the function", "an exception raised while reading/decoding escapes _read_pdu_data", mod=dul, node=rd)
    guarded, dcall = rm.decode_guarded()
    rep.check(guarded, "containment", fq, "self._decode_pdu(..) inside try/except Exception -> Evt19; return", "any exception while decoding peer bytes must become Evt19", mod=dul, node=dcall)
    tests = {norm(n.ast.test): n for n in cfg.nodes if n.kind == "test"}
    t_type = [n for t, n in tests.items() if t.startswith("pdu_type not in")]
    t_len = [n for t, n in tests.items() if t.replace(" ", "") in ("len(bytestream)!=6+pdu_length", "len(bytestream)!=pdu_length+6")]
    rep.check(len(t_type) == 1 and cfg.dominates(t_type[0], dec), "containment", fq, "unknown PDU type -> Evt19 before decoding", "the PDU type must be checked before the decoder table is indexed", mod=dul, node=rd)
    if t_type:
        vals = t_type[0].ast.test.comparators[0]
        okv = isinstance(vals, (ast.Tuple, ast.List, ast.Set)) and sorted(e.value for e in vals.elts) == [1, 2, 3, 4, 5, 6, 7]
        rep.check(okv, "containment", fq, t_type[0].ast, "exactly the seven PS3.8 PDU types are recognised", mod=dul)
        body = [norm(s) for s in t_type[0].ast.body if not norm(s).startswith("LOGGER")]
        rep.check(body == ["self.event_queue.put('Evt19')", "return"], "containment", fq, f"unknown type: {body}", "an unknown PDU type is Evt19 (unrecognised PDU)", mod=dul, node=t_type[0].ast)
    rep.check(len(t_len) == 1 and cfg.dominates(t_len[0], dec), "containment", fq, "len(bytestream) != 6 + pdu_length -> Evt17 before decoding", "a PDU shorter than its length field must never reach the decoder", mod=dul, node=rd)
    from .c03 import header_fields
    hf = header_fields(rd)
    for name, want in (("pdu_type", (0, 1)), ("pdu_length", (2, 4))):
        got = hf.get(name)
        if got is None:
            rep.defer(f"{fq}: how {name} is taken from the header was not recognised")
            continue
        # the buffer the fields are taken from is the 6-byte read: the accumulating `bytestream` or a local bound to
        # the first read (directly or through a read helper of the provider)
        hdr_ok = got[1] == "bytestream" or any(isinstance(a_, ast.Assign) and len(a_.targets) == 1 and norm(a_.targets[0]) == got[1] and isinstance(strip_cast(a_.value), ast.Call) and strip_cast(a_.value).args and norm(strip_cast(a_.value).args[0]) == "6" for a_ in walk_no_nested(rd))
        okh = got[0][:2] == want and (want[1] == 1 or got[0][2] == "big") and hdr_ok
        rep.check(okh, "containment", fq, f"{name} <- bytes [{got[0][0]}:{got[0][0] + got[0][1]}] {got[0][2]}-endian of {got[1]}", "the header is type(1) reserved(1) length(4, big-endian)", mod=dul, node=got[2])

    # ---- escape -------------------------------------------------------------------
    check_survival(repo, rep, rm, "escape")
    from ..delegate import delegate as _delegate
    rep.rule("pdv-not-dropped", "every PDV of a received P-DATA-TF is classified and used, or the PDU is reported invalid (C15's reader rules)")
    rep.rule("malformed-is-invalid", "bytes that are not a well-formed item fail the decode of the PDU, they are not skipped (C01's evaluation of the item generators)")
    _delegate(repo, rep, tier, "C01", ("decoder-complete",), "malformed-is-invalid", "a malformed PDU is neither decoded into a value that re-encodes to the same bytes nor classified as invalid: the stray bytes vanish and the PDU is processed as if it conformed")
    rep.rule("state-per-message", "what the DIMSE provider accumulates while receiving a message is reset with the message (C15's message-reset)")
    _delegate(repo, rep, tier, "C15", ("message-reset",), "state-per-message", "state left over from earlier messages makes the receiver report a conformant P-DATA-TF as invalid (Evt19, A-ABORT) after enough traffic on one association")
    _delegate(repo, rep, tier, "C15", ("reader-bits", "reader-complete"), "pdv-not-dropped", "part of a conformant P-DATA-TF (PS3.8 allows several PDVs in one PDU) is neither decoded nor reported as invalid: the message the peer sent never completes or is reassembled without a fragment, with no Evt19 and no log entry")

    # ---- nothing received is left unread (never rejects / loses a conformant PDU) ----------
    from .c03 import check_ready_probe
    rep.rule("ready-probe", "the readiness probe sees TLS-buffered data on every SSLSocket, whichever side wrapped it")
    check_ready_probe(repo, rep, "ready-probe")
    from .c03 import check_header_guard
    rep.rule("header-guard", "a header of fewer than 6 bytes is turned into Evt17 (try/except struct.error or a dominating length test), never an escaping exception")
    check_header_guard(repo, rep, "header-guard")

    # ---- termination ----------------------------------------------------------------
    loops = [
        ("pdu", "PDU._generate_items"),
        ("pdu", "P_DATA_TF._generate_items"),
        ("pdu_items", "PDUItem._generate_items"),
        ("pdu_items", "SOPClassCommonExtendedNegotiationSubItem._generate_items"),
        ("transport", "AssociationSocket.recv"),
    ]
    for mname, q in loops:
        fn = repo.func(mname, q)
        m = repo.mod(mname)
        ws = [w for w in walk_no_nested(fn) if isinstance(w, ast.While)]
        if not ws and any(isinstance(x, ast.YieldFrom) or (isinstance(x, ast.Return) and isinstance(x.value, ast.Call) and "_generate_items" in norm(x.value.func)) for x in walk_no_nested(fn)):
            rep.ok("termination", f"{mname}.{q} :: delegates to another item generator", "no loop of its own")
            continue
        rep.need(len(ws) >= 1, f"{mname}.{q}: expected a while loop")
        for w_ in ws:
            check_progress(rep, m, fn, w_, f"{mname}.{q}")
    # any other while loop on the decode path must be known
    n_while = 0
    for mname in ("pdu", "pdu_items"):
        m = repo.mod(mname)
        for w in [x for x in ast.walk(m.tree) if isinstance(x, ast.While)]:
            n_while += 1
            f = enclosing(w, (ast.FunctionDef,))
            from ..loader import qualname
            rep.check((mname, qualname(f)) in loops, "termination", f"{mname}.{qualname(f)}", w, "a while loop in the PDU codec that the termination rule does not cover", mod=m, node=w)
    rep.floor("codec while loops", n_while, 3)

    # ---- re-encode stability -----------------------------------------------------------
    sp = json.loads((VERIF / "spec" / "ps3_8_pdu_layout.json").read_text())
    pm = PduModel(repo)
    n_len = 0
    for name in sp["classes"]:
        ci = pm.classes.get(name)
        rep.need(ci is not None, f"codec class {name} vanished")
        got, rows = code_layout(pm, ci)
        lprop = "pdu_length" if any(r.attr == "pdu_length" for r in rows) else "item_length"
        E = expected_len(got)
        for assume, L in pm.prop_lin(ci, lprop):
            n_len += 1
            falsy = {a for a, t in assume if not t}
            zero = lambda atom: isinstance(atom, tuple) and atom[1] in falsy  # noqa: E731
            L2, E2 = L.subst_zero(zero), E.subst_zero(zero)
            short = ci.mod.name.replace("pynetdicom.", "")
            rep.check(L2 == E2, "re-encode", f"{short}.{name}.{lprop}", f"{L.show()} [{sorted(assume)}]", f"the decoder keeps every sub-item it finds, the encoder emits them all ({E.show()} bytes follow the length field) but the length field is computed as {L.show()}: a decoded item with more elements re-encodes with a wrong length", mod=ci.mod, node=pm.repo.lookup_method(ci, lprop, "getter")[1])
    rep.floor("length summaries", n_len, 23)

    # ---- nothing but the codec decides that a PDU is invalid ---------------------------------------------
    rep.rule("no-extra-rejection", "_decode_pdu raises only what the codec raises: it adds no acceptance condition of its own (PS3.8 has no such condition on a well-formed PDU)")
    dp = repo.func("dul", "DULServiceProvider._decode_pdu")
    extra = [x for x in walk_no_nested(dp) if isinstance(x, ast.Raise)]
    for x in extra:
        g = enclosing(x, (ast.If,))
        rep.fail("no-extra-rejection", "dul.DULServiceProvider._decode_pdu", enclosing(x, (ast.stmt,)) if not isinstance(x, ast.stmt) else x, f"_decode_pdu raises on `{norm(g.test) if g is not None else 'every path'}`: a PDU that decodes and converts is turned into 'invalid PDU' (Evt19 -> A-ABORT) by a condition of the provider's own - for a limit taken from configuration (a maximum size, a count) it is wrong whenever the value announced to this peer differs from it", mod=dul, node=x)
    if not extra:
        rep.ok("no-extra-rejection", "dul.DULServiceProvider._decode_pdu :: no explicit raise")

    # ---- a conformant UID is never refused -------------------------------------------------------------
    from .c12 import check_ui_accepts_legal
    rep.rule("uid-accepted", "validate_ui accepts every well-formed UID of up to 64 characters (and refuses 65): what the setters of the received PDU / command fields rely on")
    rep.floor("validate_ui evaluations", check_ui_accepts_legal(repo, rep, "uid-accepted"), 10)

def check_progress(rep, mod, fn, w: ast.While, fq):
    """every path through the loop body either leaves the loop/function or advances the cursor by
    (positive literal) + non-negative terms"""
    cond_names = {n.id for n in ast.walk(w.test) if isinstance(n, ast.Name)}
    unsigned = set()  # locals holding unsigned unpack results / lengths
    for s in ast.walk(w):
        if isinstance(s, ast.Assign) and isinstance(s.targets[0], ast.Name):
            v = s.value
            t = norm(v)
            if t.startswith("UNPACK_U") and t.endswith("[0]"):
                unsigned.add(s.targets[0].id)
            if isinstance(v, ast.Call) and dotted(v.func) == "len":
                unsigned.add(s.targets[0].id)
        # `kind, length = UNPACK_X(buffer, offset)`: fields of a struct whose format C01's wire-unsigned rule holds to
        # unsigned codes
        if isinstance(s, ast.Assign) and isinstance(s.targets[0], (ast.Tuple, ast.List)) and isinstance(s.value, ast.Call) and (norm(s.value.func).startswith("UNPACK_") or norm(s.value.func).endswith((".unpack", ".unpack_from"))):
            unsigned |= {e_.id for e_ in s.targets[0].elts if isinstance(e_, ast.Name)}

    def nonneg_positive(e):
        """-> (all terms non-negative, contains a positive literal)"""
        if isinstance(e, ast.BinOp) and isinstance(e.op, ast.Add):
            a1, p1 = nonneg_positive(e.left)
            a2, p2 = nonneg_positive(e.right)
            return a1 and a2, p1 or p2
        if isinstance(e, ast.Constant) and isinstance(e.value, int):
            return e.value >= 0, e.value > 0
        if isinstance(e, ast.Name) and e.id in unsigned:
            return True, False
        if isinstance(e, ast.Call) and dotted(e.func) == "len":
            return True, False
        if isinstance(e, ast.Attribute) and e.attr == "size" and isinstance(e.value, ast.Name) and e.value.id.isupper():
            return True, True  # the size of a module-level Struct: a positive constant
        return False, False

    cfgw = CFG(fn, body=body_nodoc(fn), may_raise=lambda n: False)
    head_nodes = [n for n in cfgw.nodes if n.kind == "test" and n.ast is w]
    rep.need(len(head_nodes) == 1, f"{fq}: loop head not in CFG")
    head = head_nodes[0]
    advancing = set()
    guards_nonempty = set()
    # `cursor = cursor + E` and `nxt = cursor + E; ...; cursor = nxt` are the same advance as `cursor += E`
    def as_increment(st):
        """-> (cursor name, increment expr) for the three spellings, else None"""
        if isinstance(st, ast.AugAssign) and isinstance(st.op, ast.Add) and isinstance(st.target, ast.Name):
            return st.target.id, st.value
        if isinstance(st, ast.Assign) and len(st.targets) == 1 and isinstance(st.targets[0], ast.Name):
            c_, v_ = st.targets[0].id, st.value
            if isinstance(v_, ast.Name):
                defs_ = [d_ for d_ in ast.walk(w) if isinstance(d_, ast.Assign) and len(d_.targets) == 1 and norm(d_.targets[0]) == v_.id]
                if len(defs_) == 1:
                    v_ = defs_[0].value
            terms = []

            def flat(e_):
                if isinstance(e_, ast.BinOp) and isinstance(e_.op, ast.Add):
                    flat(e_.left)
                    flat(e_.right)
                else:
                    terms.append(e_)

            flat(v_)
            mine = [t_ for t_ in terms if isinstance(t_, ast.Name) and t_.id == c_]
            if len(mine) == 1 and len(terms) >= 2:
                rest = [t_ for t_ in terms if t_ is not mine[0]]
                inc = rest[0]
                for r_ in rest[1:]:
                    inc = ast.BinOp(left=inc, op=ast.Add(), right=r_)
                return c_, inc
        return None

    for n in cfgw.nodes:
        inc_ = as_increment(n.ast) if n.kind == "stmt" else None
        if inc_ is not None and not isinstance(n.ast, ast.AugAssign) and inc_[0] in cond_names and head in n.loops:
            ok_terms, has_pos = nonneg_positive(inc_[1])
            if ok_terms and has_pos:
                advancing.add(n.id)
            continue
        if n.kind == "stmt" and isinstance(n.ast, ast.AugAssign) and isinstance(n.ast.op, ast.Add) and isinstance(n.ast.target, ast.Name) and n.ast.target.id in cond_names and head in n.loops:
            ok_terms, has_pos = nonneg_positive(n.ast.value)
            if ok_terms and has_pos:
                advancing.add(n.id)
            elif ok_terms:
                # `nr_read += len(bytes_read)`: positive only if an emptiness test on the same
                # value left the loop earlier on this path
                arg = n.ast.value.args[0] if isinstance(n.ast.value, ast.Call) and n.ast.value.args else None
                if arg is not None:
                    for t in cfgw.nodes:
                        if t.kind == "test" and head in t.loops and norm(t.ast.test) == f"not {norm(arg)}" and all(isinstance(s, ast.Return) or isinstance(s, ast.Break) for s in t.ast.body[-1:]) and cfgw.dominates(t, n):
                            advancing.add(n.id)
    # every path from the head's true edge back to the head passes an advancing node
    start = [m for m, l in head.succ if l == "true"]
    rep.need(start, f"{fq}: loop has no body")
    ok, wpath = cfgw.must_pass(head, lambda n: n.id in advancing, {head.id})
    # must_pass treats src specially; emulate: search from the body entry
    seen, todo, bad = set(), [start[0]], False
    while todo:
        n = todo.pop()
        if n.id in seen or n.id in advancing:
            continue
        seen.add(n.id)
        if n is head:
            bad = True
            break
        for m, l in n.succ:
            todo.append(m)
    rep.check(not bad and bool(advancing), "termination", fq, w, f"a path through the loop body returns to the loop test without advancing {sorted(cond_names)} by a positive amount: a crafted item (e.g. zero length) would spin the decoder forever", mod=mod, node=w)
