"""C09 - protocol timers measure elapsed time, unaffected by wall-clock changes."""

from __future__ import annotations

import ast
import itertools

from ..cfg import path_summaries
from ..loader import AnalysisError, Repo, body_nodoc, dotted, norm, walk_no_nested, qualname, parent, enclosing
from ..report import Report

LEVEL = "proof"
EXPLANATION = (
    "Timer is five straight-line methods. Every clock read in the package is located by "
    "syntax; reads whose value reaches arithmetic or a comparison must be a monotonic clock. "
    "Timer.expired (with Timer.remaining inlined) is evaluated symbolically over the 8 "
    "combinations of (timeout is None, never started, not stopped) into a linear form over "
    "{timeout, start, end, now} and compared with the reference 'timeout - (end|now - start) < 0'; "
    "start/stop/restart are compared with the reference field updates. (state-machine) the whole "
    "class is also interpreted abstractly - fields hold None or a linear form over symbolic clock "
    "reads and timeout values - over every sequence of up to three operations (start, stop, restart, "
    "timeout = None, timeout = value) from both initial states, and `expired` must equal the reference "
    "predicate after each: this covers state added to the class (caches, extra clocks) that the "
    "per-method comparison cannot see."
    ' Fifth round: a duration (difference of two clock readings) used as a truth value is a mismatch - it can be exactly 0.0 (timer_model.ZeroableTruth).'
)

MONO = {"monotonic", "monotonic_ns", "perf_counter", "perf_counter_ns"}
WALL_TIME = {"time", "time_ns", "clock", "localtime", "gmtime", "ctime"}
WALL_DT = {"now", "utcnow", "today"}


def clock_kind(call: ast.Call, mod) -> str | None:
    """'mono' / 'wall' / None for a call node."""
    d = dotted(call.func)
    if not d:
        return None
    parts = d.split(".")
    if len(parts) == 2 and parts[0] in mod.imports and mod.imports[parts[0]][0] == "time" and mod.imports[parts[0]][1] is None:
        if parts[1] in MONO:
            return "mono"
        if parts[1] in WALL_TIME:
            return "wall"
    if len(parts) == 1 and parts[0] in mod.imports and mod.imports[parts[0]][0] == "time":
        real = mod.imports[parts[0]][1]
        if real in MONO:
            return "mono"
        if real in WALL_TIME:
            return "wall"
    if parts[-1] in WALL_DT and any(p in ("datetime", "date") for p in parts[:-1]):
        return "wall"
    return None


class Lin(dict):
    """integer-coefficient linear form over atoms; 'const' holds the constant term"""

    @staticmethod
    def atom(a, k=1):
        l = Lin()
        l[a] = k
        return l

    def add(self, o, k=1):
        r = Lin(self)
        for a, c in o.items():
            r[a] = r.get(a, 0) + k * c
            if r[a] == 0:
                del r[a]
        return r


def linear(node: ast.AST, mod, atoms: dict[str, str]) -> Lin:
    if isinstance(node, ast.BinOp) and isinstance(node.op, (ast.Add, ast.Sub)):
        l, r = linear(node.left, mod, atoms), linear(node.right, mod, atoms)
        return l.add(r, 1 if isinstance(node.op, ast.Add) else -1)
    if isinstance(node, ast.UnaryOp) and isinstance(node.op, ast.USub):
        return Lin().add(linear(node.operand, mod, atoms), -1)
    if isinstance(node, ast.Constant) and isinstance(node.value, (int, float)) and not isinstance(node.value, bool):
        return Lin.atom("const", node.value) if node.value else Lin()
    if isinstance(node, ast.Call):
        if isinstance(node.func, ast.Name) and node.func.id == "cast" and len(node.args) == 2:
            return linear(node.args[1], mod, atoms)
        k = clock_kind(node, mod)
        if k is not None:
            return Lin.atom("now")
    t = norm(node)
    if t in atoms:
        return Lin.atom(atoms[t])
    raise AnalysisError(f"timer expression not linear over known atoms: {t}")


ATOMS = {
    "self.timeout": "timeout",
    "self._timeout": "timeout",
    "self._start_time": "start",
    "self._end_time": "end",
}
COND_ATOMS = {
    "self.timeout is None": ("tn", True),
    "self._timeout is None": ("tn", True),
    "self.timeout is not None": ("tn", False),
    "self._start_time is None": ("sn", True),
    "self._start_time is not None": ("sn", False),
    "self._end_time is None": ("en", True),
    "self._end_time is not None": ("en", False),
}


def consistent(conds, assign) -> bool:
    for test, taken in conds:
        t = norm(test)
        neg = False
        if t.startswith("not "):
            t, neg = t[4:], True
        if t not in COND_ATOMS:
            raise AnalysisError(f"Timer: branch condition not recognised: {t}")
        var, pos = COND_ATOMS[t]
        holds = assign[var] == pos
        if neg:
            holds = not holds
        if holds != taken:
            return False
    return True


def run(repo: Repo, rep: Report, tier: str) -> None:
    rep.rule("clock-source", "every clock read whose value reaches arithmetic/comparison is time.monotonic/perf_counter")
    rep.rule("expired-semantics", "expired <=> timeout - ((end or now) - start) < 0, False when timeout is None or never started")
    rep.rule("field-updates", "start: start:=now,end:=None; stop: end:=now only; restart == start; timeout setter stores its argument")
    mod = repo.mod("timer")
    ci = repo.cls("timer", "Timer")

    # ---- clock source ----------------------------------------------------
    n_reads = 0
    for m in repo.modules.values():
        if m.name.startswith("pynetdicom.apps"):
            continue
        for call in [n for n in ast.walk(m.tree) if isinstance(n, ast.Call)]:
            k = clock_kind(call, m)
            if k is None:
                continue
            repo.consulted.add(m.name)
            n_reads += 1
            fq = f"{m.name.replace('pynetdicom.', '')}.{qualname(call)}"
            st = call
            while not isinstance(st, ast.stmt):
                st = parent(st)
            if k == "mono":
                rep.ok("clock-source", f"{fq} :: {norm(st)}", "monotonic")
                continue
            # wall clock: allowed only when the value is merely formatted / stored
            used_numerically = m.name == "pynetdicom.timer"
            p, child = parent(call), call
            while p is not None and not isinstance(p, ast.stmt):
                if isinstance(p, (ast.BinOp, ast.Compare)):
                    used_numerically = True
                child, p = p, parent(p)
            if isinstance(st, ast.Assign) and isinstance(st.targets[0], ast.Name):
                var = st.targets[0].id
                f = enclosing(st, (ast.FunctionDef,))
                for n in walk_no_nested(f) if f else []:
                    if isinstance(n, (ast.BinOp, ast.Compare)) and any(isinstance(x, ast.Name) and x.id == var for x in ast.walk(n)):
                        used_numerically = True
            if used_numerically:
                rep.fail("clock-source", fq, st, "wall-clock read feeds timer arithmetic: a clock step makes the timer expire early or late; use time.monotonic()", mod=m, node=call)
            else:
                rep.ok("clock-source", f"{fq} :: {norm(st)}", "wall clock used for formatting/record only")
    rep.floor("clock reads", n_reads, 5)
    timer_reads = [c for c in ast.walk(mod.tree) if isinstance(c, ast.Call) and clock_kind(c, mod)]
    rep.floor("clock reads in timer.py", len(timer_reads), 3)

    # ---- state machine -------------------------------------------------------
    from ..timer_model import explore
    rep.rule("state-machine", "after every sequence of <= 3 operations from both initial states, expired equals the reference predicate (abstract interpretation over linear forms)")
    depth = 5 if tier == "thorough" else 3
    checked, mism, unknown = explore(ci, clock_kind, mod, depth=depth)
    rep.counters["operation sequences explored"] = checked
    for seq, got, want in mism[:6]:
        rep.fail("state-machine", "timer.Timer", seq, f"after this sequence expired is `{got}` but the property requires `{want}` (more than the timeout elapsed since the last start; a stopped timer reports the state it had when stopped)", mod=mod, node=ci.node)
    if not mism and not unknown:
        rep.ok("state-machine", f"timer.Timer :: {checked} operation sequences", "expired == reference on all")
    sm_complete = not unknown
    for seq, why in unknown[:4]:
        rep.defer(f"Timer cannot be interpreted on `{seq}`: {why}")
    if sm_complete:
        rep.floor("operation sequences explored", checked, 300)

    try:
        # ---- expired semantics -------------------------------------------------
        exp = ci.getters.get("expired")
        rem = ci.getters.get("remaining")
        rep.need(exp is not None and rem is not None, "Timer.expired / Timer.remaining vanished")
        exp_paths = [p for p in path_summaries(exp, body=body_nodoc(exp), may_raise=lambda n: False) if not p.raised]
        rem_paths = [p for p in path_summaries(rem, body=body_nodoc(rem), may_raise=lambda n: False) if not p.raised]

        def remaining_for(assign):
            c = [p for p in rem_paths if consistent(p.conds, assign)]
            rep.need(len(c) == 1, f"Timer.remaining: {len(c)} paths for {assign}")
            return c[0].ret

        def as_form(expr, assign):
            """-> ('const', bool) or ('lt0', Lin) meaning Lin < 0, or ('le0', Lin)"""
            if isinstance(expr, ast.Constant) and isinstance(expr.value, bool):
                return ("const", expr.value)
            if isinstance(expr, ast.Compare) and len(expr.ops) == 1:
                def side(e):
                    if norm(e) == "self.remaining":
                        return linear(remaining_for(assign), mod, ATOMS)
                    return linear(e, mod, ATOMS)
                l, r = side(expr.left), side(expr.comparators[0])
                op = expr.ops[0]
                if isinstance(op, ast.Lt):
                    return ("lt0", l.add(r, -1))
                if isinstance(op, ast.Gt):
                    return ("lt0", r.add(l, -1))
                if isinstance(op, ast.LtE):
                    return ("le0", l.add(r, -1))
                if isinstance(op, ast.GtE):
                    return ("le0", r.add(l, -1))
            raise AnalysisError(f"Timer.expired: return expression not recognised: {norm(expr)}")

        for tn, sn, en in itertools.product([True, False], repeat=3):
            assign = {"tn": tn, "sn": sn, "en": en}
            c = [p for p in exp_paths if consistent(p.conds, assign)]
            rep.need(len(c) == 1, f"Timer.expired: {len(c)} paths for {assign}")
            got = as_form(c[0].ret, assign)
            if tn or sn:
                want = ("const", False)
            elif en:
                want = ("lt0", Lin({"timeout": 1, "now": -1, "start": 1}))
            else:
                want = ("lt0", Lin({"timeout": 1, "end": -1, "start": 1}))
            inst = f"timeout None={tn}, never started={sn}, not stopped={en}"
            rep.check(got == want, "expired-semantics", "timer.Timer.expired", f"[{inst}] -> {got[0]} {dict(got[1]) if isinstance(got[1], dict) else got[1]}", f"expected {want[0]} {dict(want[1]) if isinstance(want[1], dict) else want[1]} for case {inst} (strictly more than the timeout elapsed; stopped timers report their stopped state)", mod=mod, node=exp)
        rep.sample({"case": "running", "expired_iff": "timeout - (now - start) < 0"})
        rep.sample({"case": "stopped", "expired_iff": "timeout - (end - start) < 0"})

        # ---- field updates -----------------------------------------------------
        def writes(fn):
            out = {}
            for ps in path_summaries(fn, body=body_nodoc(fn), may_raise=lambda n: False):
                w = {}
                for st in ps.stmts:
                    if isinstance(st, ast.Assign) and norm(st.targets[0]) in ATOMS:
                        v = st.value
                        if isinstance(v, ast.Call) and clock_kind(v, mod):
                            w[ATOMS[norm(st.targets[0])]] = "now"
                        else:
                            w[ATOMS[norm(st.targets[0])]] = norm(v)
                    elif isinstance(st, ast.Expr) and isinstance(st.value, ast.Call) and norm(st.value) in ("self.start()",):
                        w.update(writes(ci.methods["start"])[0])
                out.setdefault(tuple(sorted(w.items())), None)
            return [dict(k) for k in out]

        for meth, want in (("start", {"start": "now", "end": "None"}), ("stop", {"end": "now"}), ("restart", {"start": "now", "end": "None"})):
            fn = ci.methods.get(meth)
            rep.need(fn is not None, f"Timer.{meth} vanished")
            ws = writes(fn)
            rep.check(ws == [want], "field-updates", f"timer.Timer.{meth}", f"writes {ws}", f"{meth}() must perform exactly {want} on every path", mod=mod, node=fn)
        setter = ci.setters.get("timeout")
        rep.need(setter is not None, "Timer.timeout setter vanished")
        arg = setter.args.args[1].arg
        ws = [s for s in walk_no_nested(setter) if isinstance(s, ast.Assign)]
        rep.check(len(ws) == 1 and norm(ws[0].targets[0]) == "self._timeout" and norm(ws[0].value) == arg, "field-updates", "timer.Timer.timeout:setter", "self._timeout = " + arg, "timeout setter must store its argument unchanged", mod=mod, node=setter)
        getter = ci.getters.get("timeout")
        rets = [s for s in walk_no_nested(getter) if isinstance(s, ast.Return)]
        rep.check(len(rets) == 1 and norm(rets[0].value) == "self._timeout", "field-updates", "timer.Timer.timeout", "return self._timeout", "timeout getter must return the stored value", mod=mod, node=getter)
        init = ci.methods["__init__"]
        iw = {norm(s.target if isinstance(s, ast.AnnAssign) else s.targets[0]): norm(s.value) for s in walk_no_nested(init) if isinstance(s, (ast.Assign, ast.AnnAssign)) and s.value is not None}
        rep.check(iw.get("self._start_time") == "None" and iw.get("self._end_time") == "None", "field-updates", "timer.Timer.__init__", f"{iw}", "a new timer must be not-started and not-stopped", mod=mod, node=init)
        # nobody outside Timer writes the private fields
        for m in repo.modules.values():
            for n in ast.walk(m.tree):
                if isinstance(n, ast.Attribute) and isinstance(n.ctx, ast.Store) and n.attr in ("_start_time", "_end_time"):
                    cls = enclosing(n, (ast.ClassDef,))
                    rep.check(m is mod and cls is not None and cls.name == "Timer", "field-updates", f"{m.name}.{qualname(n)}", n, "timer field written outside Timer", mod=m, node=n)
    except AnalysisError as exc:
        if sm_complete:
            rep.extra["per_method_rules_not_applicable"] = f"{exc} - the class no longer has the five-straight-line-methods shape; decided by the state-machine rule alone"
        else:
            rep.defer(str(exc))
    rep.extra["exhaustive"] = True
    # ---- a timeout of 0 is not "no timeout" -----------------------------------------------------
    from ..lints import zero_legal_truthiness
    rep.rule("none-not-falsy", "timeouts are tested with `is None` (0 is a timeout, None is none)")
    zero_legal_truthiness(repo, rep, "none-not-falsy", {"timeout", "_timeout", "acse_timeout", "dimse_timeout", "network_timeout", "connection_timeout"}, modules=("timer", "dul", "association", "acse", "dimse", "transport"))

    from .c08 import check_timeout_propagation
    rep.rule("timeout-propagation", "the ARTIM and network-idle timers are given the configured timeouts (C08's timeout-propagation)")
    check_timeout_propagation(repo, rep, "timeout-propagation")
