"""Shape extraction of the role-selection logic in presentation.py / acse.py / pdu_items.py into
small parameter records, from which the acceptor's and requestor's role decision tables are
computed (C10, C11).  Every extraction is a recognised-shape match; anything else is an
AnalysisError, never a guess."""

from __future__ import annotations

import ast

from .consteval import Evaluator, Unknown
from .loader import AnalysisError, Repo, body_nodoc, dotted, norm, strip_cast, walk_no_nested, enclosing


def spec_outcome(prop, acc):
    """PS3.7 D.3.3.4 as a function: -> (rq_scu, rq_scp, ac_scu, ac_scp)"""
    ps, pp = prop
    a_s, a_p = acc
    if ps is None and pp is None:
        return (True, False, False, True)
    if a_s is None or a_p is None:
        return (True, False, False, True)
    rq_scu = bool(ps) and bool(a_s)
    rq_scp = bool(pp) and bool(a_p)
    return (rq_scu, rq_scp, rq_scp, rq_scu)


class RoleTable:
    def __init__(self, repo: Repo):
        self.mod = repo.mod("presentation")
        ev = Evaluator(repo, self.mod)
        try:
            self.table = ev.name("SCP_SCU_ROLES")
        except Unknown as exc:
            raise AnalysisError(f"presentation.SCP_SCU_ROLES not evaluable: {exc}")
        self.node = self.mod.assign_stmts["SCP_SCU_ROLES"][0]


class _A:
    """uniform view of Assign / AnnAssign-with-value"""

    def __init__(self, st):
        self.st = st
        self.target = st.targets[0] if isinstance(st, ast.Assign) else st.target
        self.value = st.value
        self.lineno = st.lineno


def _assigns(node, target_text):
    out = []
    for s in ast.walk(node):
        if isinstance(s, ast.Assign) and norm(s.targets[0]) == target_text:
            out.append(_A(s))
        elif isinstance(s, ast.AnnAssign) and s.value is not None and norm(s.target) == target_text:
            out.append(_A(s))
    return out


def _const(e):
    e = strip_cast(e)
    if isinstance(e, ast.Constant):
        return e.value
    raise AnalysisError(f"expected a constant, got {norm(e)}")


def _outcome_index(e, var="outcome"):
    if isinstance(e, ast.Subscript) and norm(e.value) == var and isinstance(e.slice, ast.Constant):
        return e.slice.value
    raise AnalysisError(f"expected {var}[k], got {norm(e)}")


class AcceptorModel:
    """parameters of the role section of negotiate_as_acceptor / negotiate_unrestricted"""

    def __init__(self, repo: Repo, fname: str):
        self.mod = repo.mod("presentation")
        self.fn = repo.func("presentation", fname)
        self.fname = fname
        fn = self.fn
        if fname == "negotiate_as_acceptor":
            a = _assigns(fn, "ac_roles")
            if len(a) != 1 or norm(a[0].value) != "(ac_context.scu_role, ac_context.scp_role)":
                raise AnalysisError(f"{fname}: ac_roles shape: {[norm(x.value) for x in a]}")
            self.ac_roles_src = "setting"
            # proposal lookup: two recognised shapes
            tr = [t for t in walk_no_nested(fn) if isinstance(t, ast.Try) and any(norm(s) == "rq_roles = roles[ab_syntax]" for s in t.body)]
            if len(tr) == 1:
                body = [norm(s) for s in tr[0].body]
                hbody = [norm(s) for s in tr[0].handlers[0].body]
                if body != ["rq_roles = roles[ab_syntax]", "has_role = True"] or hbody != ["rq_roles = (None, None)", "has_role = False"] or norm(tr[0].handlers[0].type) != "KeyError":
                    raise AnalysisError(f"{fname}: proposal lookup shape changed: {body} / {hbody}")
            else:
                ifs0 = [i for i in walk_no_nested(fn) if isinstance(i, ast.If) and norm(i.test) == "ab_syntax in roles"]
                dflt = [a for a in _assigns(fn, "rq_roles") if norm(a.value) == "(None, None)"]
                if len(ifs0) != 1 or not dflt or sorted(norm(x) for x in ifs0[0].body) != ["has_role = True", "rq_roles = roles[ab_syntax]"] or ifs0[0].orelse:
                    raise AnalysisError(f"{fname}: proposal lookup shape not recognised")
                # (whether has_role / rq_roles are reset in every iteration is the
                #  iteration-independence rule's business, not the model's)
            # None in ac_roles
            ifs = [i for i in walk_no_nested(fn) if isinstance(i, ast.If) and norm(i.test) == "None in ac_roles"]
            if len(ifs) != 1:
                raise AnalysisError(f"{fname}: 'None in ac_roles' branch vanished")
            d = {norm(s.targets[0]): s.value for s in ifs[0].body if isinstance(s, ast.Assign)}
            self.default = (_const(d["context._as_scu"]), _const(d["context._as_scp"]))
            self.default_has_role = _const(d["has_role"]) if "has_role" in d else None
            e = {norm(s.targets[0]): s.value for s in ifs[0].orelse if isinstance(s, ast.Assign)}
            if norm(e.get("outcome")) != "SCP_SCU_ROLES[rq_roles][ac_roles]":
                raise AnalysisError(f"{fname}: outcome lookup shape: {norm(e.get('outcome'))}")
            self.idx = (_outcome_index(e["context._as_scu"]), _outcome_index(e["context._as_scp"]))
            self.role_section_guard = norm(enclosing(ifs[0], (ast.If,)).test)
            # no-role rejection
            rj = [i for i in walk_no_nested(fn) if isinstance(i, ast.If) and norm(i.test) == "context.as_scu is False and context.as_scp is False"]
            self.norole_result = None
            if rj:
                r = [s for s in rj[0].body if isinstance(s, ast.Assign) and norm(s.targets[0]) == "context.result"]
                self.norole_result = _const(r[0].value) if r else None
                self.norole_node = rj[0]
                # must sit after the role assignment inside the same accepted-context block
                self.norole_in_section = enclosing(rj[0], (ast.If,)) is enclosing(ifs[0], (ast.If,)) and rj[0].lineno > ifs[0].lineno
            # reply
            # the block that builds the role reply, found by what it does (constructs the negotiation item);
            # its guard is the path condition through the if/elif chain down to it
            rp = []
            for i in walk_no_nested(fn):
                if not isinstance(i, ast.If):
                    continue
                for branch, taken in ((i.body, True), (i.orelse, False)):
                    if any(isinstance(s_, ast.Assign) and isinstance(s_.value, ast.Call) and norm(s_.value.func) == "SCP_SCU_RoleSelectionNegotiation" for s_ in branch):
                        rp.append((i, taken))
            if len(rp) != 1:
                raise AnalysisError(f"{fname}: reply branch not found ({len(rp)} candidates)")
            node, taken = rp[0]
            atoms = {}

            def add(test, truth):
                parts = test.values if isinstance(test, ast.BoolOp) and isinstance(test.op, ast.And) and truth else [test]
                if isinstance(test, ast.BoolOp) and not (isinstance(test.op, ast.And) and truth):
                    atoms[norm(test)] = truth
                    return
                for p_ in parts:
                    t_ = norm(p_)
                    tr_ = truth
                    for a_, b_ in ((" != ", " == "), (" is not ", " is "), (" not in ", " in ")):
                        if a_ in t_:
                            t_, tr_ = t_.replace(a_, b_, 1), not tr_
                            break
                    if t_.startswith("not "):
                        t_, tr_ = t_[4:], not tr_
                    atoms[t_] = tr_

            add(node.test, taken)
            child, par = node, enclosing(node, (ast.If,))
            loop_ = enclosing(node, (ast.For,))
            while par is not None and (loop_ is None or any(x is par for x in ast.walk(loop_))):
                if any(x is child for x in par.orelse):
                    add(par.test, False)
                elif any(x is child for x in par.body):
                    add(par.test, True)
                child, par = par, enclosing(par, (ast.If,))
                if par is not None and loop_ is not None and not any(x is par for x in ast.walk(loop_)):
                    break
            self.reply_guard_atoms = atoms
            if not (atoms.get("context.result == 0") is True and atoms.get("has_role") is True):
                raise AnalysisError(f"{fname}: reply branch guard changed: {atoms}")

            class _Blk:
                pass

            blk = _Blk()
            blk.body = node.body if taken else node.orelse
            blk.test = node.test
            blk.lineno = node.lineno
            self.reply = self._reply_masks(blk, "ac_context")
            self.reply_node = node
        else:
            # unrestricted: every storage context accepted with both roles, table lookup with (True, True)
            loop = [f for f in walk_no_nested(fn) if isinstance(f, ast.For) and norm(f.iter) == "storage_contexts"]
            if len(loop) != 1:
                raise AnalysisError(f"{fname}: storage loop vanished")
            self.loop = loop[0]
            d = {norm(s.targets[0]): s.value for s in loop[0].body if isinstance(s, ast.Assign)}
            self.default = (_const(d["cx._as_scu"]), _const(d["cx._as_scp"]))
            self.accept_result = _const(d["cx.result"])
            ifs = [i for i in loop[0].body if isinstance(i, ast.If) and norm(i.test) == "rcx.abstract_syntax in roles"]
            if len(ifs) != 1:
                raise AnalysisError(f"{fname}: role branch vanished")
            e = {norm(s.targets[0]): s.value for s in ifs[0].body if isinstance(s, ast.Assign)}
            if norm(e.get("rq_roles")) != "roles[rcx.abstract_syntax]":
                raise AnalysisError(f"{fname}: proposal lookup shape")
            oc = e.get("outcome")
            if not (isinstance(oc, ast.Subscript) and norm(oc.value) == "SCP_SCU_ROLES[rq_roles]" and isinstance(oc.slice, ast.Tuple)):
                raise AnalysisError(f"{fname}: outcome lookup shape: {norm(oc)}")
            self.fixed_setting = tuple(_const(x) for x in oc.slice.elts)
            self.idx = (_outcome_index(e["cx._as_scu"]), _outcome_index(e["cx._as_scp"]))
            self.reply = {}
            for k, attr in ((0, "role.scu_role"), (1, "role.scp_role")):
                v = e.get(attr)
                if v is None:
                    raise AnalysisError(f"{fname}: {attr} is not assigned in the role branch")
                self.reply[k] = self._unres_reply(v, k)
            self.reply_node = ifs[0]
            # no-role rejection (after the role branch, inside the loop)
            self.norole_result = None
            self.norole_in_section = False
            for i in loop[0].body:
                if isinstance(i, ast.If) and norm(i.test) in ("cx.as_scu is False and cx.as_scp is False", "cx._as_scu is False and cx._as_scp is False", "not cx.as_scu and not cx.as_scp", "not cx._as_scu and not cx._as_scp"):
                    r = [s for s in i.body if isinstance(s, ast.Assign) and norm(s.targets[0]) == "cx.result"]
                    if r:
                        self.norole_result = _const(r[0].value)
                        self.norole_node = i
                        self.norole_in_section = i.lineno > ifs[0].lineno
            self.role_if = ifs[0]

    @staticmethod
    def _reply_masks(block, acobj):
        """`if rq_roles[k] is <C>: role.X = <v1> else: role.X = <v2>` -> (C, v1, v2) with
        v in {('const', c), ('setting', 'scu_role'|'scp_role')}"""
        def val(e):
            e = strip_cast(e)
            if isinstance(e, ast.Constant):
                return ("const", e.value)
            t = norm(e)
            if t in (f"{acobj}.scu_role", f"{acobj}.scp_role"):
                return ("setting", t.split(".")[1])
            raise AnalysisError(f"reply value not modelled: {t}")

        out = {}
        for k, attr in ((0, "scu_role"), (1, "scp_role")):
            ifs = [i for i in block.body if isinstance(i, ast.If) and isinstance(i.test, ast.Compare) and norm(i.test.left) == f"rq_roles[{k}]" and isinstance(i.test.ops[0], (ast.Is, ast.Eq)) and isinstance(i.test.comparators[0], ast.Constant)]
            if len(ifs) != 1:
                raise AnalysisError(f"reply mask for {attr}: shape changed")
            t = [s for s in ifs[0].body if isinstance(s, ast.Assign) and norm(s.targets[0]) == f"role.{attr}"]
            f = [s for s in ifs[0].orelse if isinstance(s, ast.Assign) and norm(s.targets[0]) == f"role.{attr}"]
            if len(t) != 1 or len(f) != 1:
                raise AnalysisError(f"reply mask for {attr}: branch bodies changed")
            out[k] = (ifs[0].test.comparators[0].value, val(t[0].value), val(f[0].value))
        return out

    @staticmethod
    def _unres_reply(v, k):
        """-> function of the proposed role (bool) giving the replied role"""
        v = strip_cast(v)
        if isinstance(v, ast.Constant):
            c = v.value
            return lambda r: c
        if isinstance(v, ast.IfExp) and isinstance(strip_cast(v.body), ast.Constant) and isinstance(strip_cast(v.orelse), ast.Constant):
            b, o = strip_cast(v.body).value, strip_cast(v.orelse).value
            t = norm(v.test)
            if t == f"not rq_roles[{k}]":
                return lambda r: b if not r else o
            if t == f"rq_roles[{k}]":
                return lambda r: b if r else o
        if norm(v) in (f"rq_roles[{k}]", f"bool(rq_roles[{k}])"):
            return lambda r: bool(r)
        raise AnalysisError(f"negotiate_unrestricted: reply expression shape: {norm(v)}")

    # -- decision ---------------------------------------------------------------
    def decide(self, table, proposal, setting):
        """proposal: None (no role item) or (ps, pp) booleans as decoded from the wire;
        setting: (scu_role, scp_role) of the supported context, each True/False/None.
        -> dict(result, as_scu, as_scp, reply)   (for a context whose transfer syntax matched)"""
        if self.fname == "negotiate_as_acceptor":
            has_role = proposal is not None
            rq = proposal if proposal is not None else (None, None)
            result = 0
            if None in setting:
                as_scu, as_scp = self.default
                if self.default_has_role is not None:
                    has_role = self.default_has_role
            else:
                oc = table[rq][setting]
                as_scu, as_scp = oc[self.idx[0]], oc[self.idx[1]]
            if self.norole_result is not None and self.norole_in_section and as_scu is False and as_scp is False:
                result = self.norole_result
            reply = None
            if result == 0 and has_role:
                vals = {"scu_role": setting[0], "scp_role": setting[1]}

                def rv(v):
                    return v[1] if v[0] == "const" else vals[v[1]]

                reply = tuple(rv(self.reply[k][1]) if rq[k] is self.reply[k][0] else rv(self.reply[k][2]) for k in (0, 1))
            return dict(result=result, as_scu=as_scu, as_scp=as_scp, reply=reply)
        # unrestricted
        result = self.accept_result
        as_scu, as_scp = self.default
        reply = None
        if proposal is not None:
            oc = table[proposal][self.fixed_setting]
            as_scu, as_scp = oc[self.idx[0]], oc[self.idx[1]]
            reply = tuple(self.reply[k](proposal[k]) for k in (0, 1))
        if self.norole_result is not None and self.norole_in_section and as_scu is False and as_scp is False:
            result = self.norole_result
        return dict(result=result, as_scu=as_scu, as_scp=as_scp, reply=reply)


class RequestorModel:
    def __init__(self, repo: Repo):
        self.mod = repo.mod("presentation")
        self.fn = repo.func("presentation", "negotiate_as_requestor")
        fn = self.fn
        # the path-sensitive look at the reply lookup applies to the spelling of today's tree; another spelling
        # (a helper function, a cached outcome) is decided by the evaluation in sa/nego_eval.py alone
        self.lookup_problem, self.idx, self.default, self.node, self.shape_problem = None, None, None, fn, None
        try:
            a = _assigns(fn, "rq_roles")
            if len(a) != 1 or norm(a[0].value) != "(rq_context.scu_role, rq_context.scp_role)":
                raise AnalysisError("negotiate_as_requestor: rq_roles shape")
            ifs = [i for i in walk_no_nested(fn) if isinstance(i, ast.If) and norm(i.test) == "ac_context.result == 0 and None not in ac_roles"]
            if len(ifs) != 1:
                raise AnalysisError("negotiate_as_requestor: role branch guard changed")
            self.lookup_problem = self._reply_lookup(fn, ifs[0])
            d = {norm(s.targets[0]): s.value for s in ifs[0].body if isinstance(s, ast.Assign)}
            if norm(d.get("outcome")) != "SCP_SCU_ROLES[rq_roles][ac_roles]":
                raise AnalysisError("negotiate_as_requestor: outcome lookup shape")
            self.idx = (_outcome_index(d["context._as_scu"]), _outcome_index(d["context._as_scp"]))
            e = {norm(s.targets[0]): s.value for s in ifs[0].orelse if isinstance(s, ast.Assign)}
            self.default = (_const(e["context._as_scu"]), _const(e["context._as_scp"]))
            self.node = ifs[0]
        except (AnalysisError, KeyError, TypeError) as exc:
            self.shape_problem = str(exc)
        # ACSE: proposed roles applied to the requested contexts, None -> False
        acse = repo.func("acse", "ACSE._negotiate_as_requestor")
        src = [norm(s) for s in walk_no_nested(acse) if isinstance(s, ast.stmt)]
        self.applies_roles = any(s.startswith("(cx.scu_role, cx.scp_role) = rq_roles[") or s.startswith("cx.scu_role, cx.scp_role = rq_roles[") for s in src)
        self.normalises = "cx.scu_role = cx.scu_role or False" in src and "cx.scp_role = cx.scp_role or False" in src
        self.acse_fn = acse

    @staticmethod
    def _reply_lookup(fn, guard: ast.If):
        """The acceptor's reply used for a context must be looked up for *that* context: on every path from
        the start of a loop iteration to the guard, `ac_roles` is bound in that iteration, either to
        roles[<this context's abstract syntax>] (also .get(.., (None, None))) or to (None, None).
        -> None when that holds, else (node, text, witness path)"""
        from .cfg import CFG, typestate, witness
        from .loader import body_nodoc, strip_cast

        cfg = CFG(fn, body=body_nodoc(fn), local_exc_only=True)

        def kind(v):
            v = strip_cast(v)
            if isinstance(v, ast.Tuple) and len(v.elts) == 2 and all(isinstance(e, ast.Constant) and e.value is None for e in v.elts):
                return "none"
            key = None
            if isinstance(v, ast.Subscript) and norm(v.value) == "roles":
                key = v.slice
            elif isinstance(v, ast.Call) and norm(v.func) == "roles.get" and len(v.args) == 2 and kind(v.args[1]) == "none":
                key = v.args[0]
            if key is not None and norm(strip_cast(key)) in ("context.abstract_syntax", "rq_context.abstract_syntax", "ac_context.abstract_syntax"):
                return "own"
            return "other"

        def transfer(n, st):
            if n.kind == "iter":
                return [("stale", None)]
            if n.kind == "stmt" and isinstance(n.ast, (ast.Assign, ast.AnnAssign)) and getattr(n.ast, "value", None) is not None:
                t = n.ast.targets[0] if isinstance(n.ast, ast.Assign) else n.ast.target
                if norm(t) == "ac_roles":
                    k = kind(n.ast.value)
                    normal = {l for _, l in n.succ if l != "exc"}
                    return [("fresh" if k in ("own", "none") else "foreign", normal), (st, {"exc"})]
            return [(st, None)]

        ins, pred = typestate(cfg, "unbound", transfer)
        g = [n for n in cfg.nodes if n.kind == "test" and n.ast is guard]
        if len(g) != 1:
            raise AnalysisError("negotiate_as_requestor: role guard not in the flow graph")
        bad = sorted(s_ for s_ in ins.get(g[0].id, ()) if s_ != "fresh")
        if not bad:
            return None
        text = {"stale": "the reply looked up for an earlier context of the loop is still in `ac_roles` on a path that reaches the role decision of this context", "unbound": "`ac_roles` may be unbound at the role decision", "foreign": "`ac_roles` is not looked up under this context's abstract syntax"}[bad[0]]
        return guard, text, witness(cfg, pred, g[0], bad[0])

    def decide(self, table, proposal_local, result, reply):
        """proposal_local: None or (ps, pp) after the requestor's own None->False normalisation"""
        rq = proposal_local if proposal_local is not None else (None, None)
        ac = reply if reply is not None else (None, None)
        if result == 0 and None not in ac:
            oc = table[rq][ac]
            return oc[self.idx[0]], oc[self.idx[1]]
        return self.default


def wire_normalisation(repo: Repo):
    """SCP_SCU_RoleSelectionSubItem.from_primitive: None -> <const>, int(); to_primitive: bool().
    -> (shape_ok, node, (value put on the wire for an unset scu role, ... scp role))"""
    fp = repo.func("pdu_items", "SCP_SCU_RoleSelectionSubItem.from_primitive")
    tp = repo.func("pdu_items", "SCP_SCU_RoleSelectionSubItem.to_primitive")
    consts = []
    for attr in ("scu_role", "scp_role"):
        from .loader import oriented
        ifs = [(i, oriented(i, f"primitive.{attr} is not None")) for i in walk_no_nested(fp) if isinstance(i, ast.If)]
        ifs = [(i, o) for i, o in ifs if o is not None]
        if len(ifs) != 1:
            raise AnalysisError(f"SCP_SCU_RoleSelectionSubItem.from_primitive: {attr} shape changed")
        t = [norm(s) for s in ifs[0][1][0]]
        f = [s for s in ifs[0][1][1] if isinstance(s, ast.Assign) and norm(s.targets[0]) == f"self.{attr}"]
        if t != [f"self.{attr} = int(primitive.{attr})"] or len(f) != 1 or not isinstance(f[0].value, ast.Constant):
            raise AnalysisError(f"SCP_SCU_RoleSelectionSubItem.from_primitive: {attr} branch bodies changed")
        consts.append(bool(f[0].value.value))
        if not any(norm(s) == f"primitive.{attr} = bool(self.{attr})" for s in walk_no_nested(tp) if isinstance(s, ast.stmt)):
            raise AnalysisError(f"SCP_SCU_RoleSelectionSubItem.to_primitive: {attr} is not decoded as bool()")
    return consts == [False, False], fp, tuple(consts)
