"""Shared extraction for fsm.py: the transition table, ACTIONS, and the effect sequence
of every path of every action function (used by C04, C05, C27)."""

from __future__ import annotations

import ast

from .cfg import CFG, N, scope
from .consteval import Evaluator, Unknown
from .loader import AnalysisError, Repo, body_nodoc, dotted, strip_cast, norm

PDU_CLASSES = {
    "A_ASSOCIATE_RQ",
    "A_ASSOCIATE_AC",
    "A_ASSOCIATE_RJ",
    "P_DATA_TF",
    "A_RELEASE_RQ",
    "A_RELEASE_RP",
    "A_ABORT_RQ",
}
PRIMITIVES = {"A_ASSOCIATE", "A_RELEASE", "A_ABORT", "A_P_ABORT", "P_DATA", "T_CONNECT"}


def ordered_calls(node: ast.AST):
    """Calls in evaluation order (arguments before the call that takes them)."""
    if isinstance(node, (ast.FunctionDef, ast.Lambda, ast.ClassDef)):
        return
    for child in ast.iter_child_nodes(node):
        yield from ordered_calls(child)
    if isinstance(node, ast.Call):
        yield node


class Val:
    __slots__ = ("kind", "cls", "consts", "src", "args")

    def __init__(self, kind, cls=None, args=None):
        self.kind = kind  # recv_pdu | prim_of_pdu | new | provq | sock | assoc | dul | unknown
        self.cls = cls
        self.consts: dict[str, object] = {}
        self.src = None  # from_primitive source
        self.args = args or []

    def __repr__(self):
        return f"{self.kind}:{self.cls}" if self.cls else self.kind


class PathEffects:
    def __init__(self):
        self.effects: list[tuple] = []  # (tag, detail, node)
        self.ret: str | None = None
        self.conds: list[tuple[str, bool]] = []  # (normalised test, polarity)
        self.cond_nodes: list[tuple[ast.AST, bool]] = []
        self.lines: list[int] = []
        self.raised = False

    def tags(self) -> list[str]:
        return [e[0] for e in self.effects]


class ActionModel:
    def __init__(self, repo: Repo):
        self.repo = repo
        self.mod = repo.mod("fsm")
        ev = Evaluator(repo, self.mod, symbolic_names=True)
        try:
            self.table = ev.name("TRANSITION_TABLE")
            self.actions = ev.name("ACTIONS")
            self.states = ev.name("STATES")
            self.events = ev.name("EVENTS")
        except Unknown as exc:
            raise AnalysisError(f"fsm tables not statically evaluable: {exc}")
        if not isinstance(self.table, dict) or not isinstance(self.actions, dict):
            raise AnalysisError("TRANSITION_TABLE / ACTIONS are not dict literals")
        self.param = "dul"

    def action_func(self, name: str) -> ast.FunctionDef:
        entry = self.actions.get(name)
        if entry is None:
            raise AnalysisError(f"ACTIONS has no entry {name}")
        sym = entry[1]
        fname = getattr(sym, "name", "").split(".")[-1]
        fn = self.mod.funcs.get(fname)
        if fn is None:
            raise AnalysisError(f"ACTIONS[{name}] does not name a module-level function")
        return fn

    # -- abstract evaluation ------------------------------------------------
    def _eval(self, node: ast.AST, env: dict, p: str) -> Val:
        node = strip_cast(node)
        if isinstance(node, ast.Constant) and node.value is None:
            return Val("none")
        if isinstance(node, ast.Name):
            if node.id == p:
                return Val("dul")
            return env.get(node.id, Val("unknown"))
        if isinstance(node, ast.Attribute):
            base = self._eval(node.value, env, p)
            if base.kind == "dul" and node.attr == "socket":
                return Val("sock")
            if base.kind == "dul" and node.attr == "assoc":
                return Val("assoc")
            if base.kind == "provq" and node.attr == "request":
                return Val("provq")
            return Val("unknown")
        if isinstance(node, ast.Subscript):
            d = dotted(node.value)
            if d == f"{p}.to_provider_queue.queue":
                return Val("provq")
            return Val("unknown")
        if isinstance(node, ast.Call):
            d = dotted(node.func) or ""
            if d == f"{p}._recv_pdu.get":
                return Val("recv_pdu")
            if d == f"{p}.to_provider_queue.get":
                return Val("provq")
            if isinstance(node.func, ast.Attribute) and node.func.attr == "to_primitive":
                base = self._eval(node.func.value, env, p)
                if base.kind == "recv_pdu":
                    return Val("prim_of_pdu")
                return Val("unknown")
            if isinstance(node.func, ast.Name) and (
                node.func.id in PDU_CLASSES or node.func.id in PRIMITIVES
            ):
                return Val("new", node.func.id, [self._eval(a, env, p) for a in node.args])
        return Val("unknown")

    def _helper_alternatives(self, call: ast.Call, env: dict, p: str, depth: int):
        """a call to another module-level function of fsm.py that is handed the provider (an action calling
        an action, a shared helper): -> [(effects, return value)] of the callee's non-raising paths with its
        parameters bound to the abstract arguments, or None when the call is not such a call"""
        f = call.func
        if not isinstance(f, ast.Name) or f.id not in self.mod.funcs or f.id in PDU_CLASSES or f.id in PRIMITIVES:
            return None
        callee = self.mod.funcs[f.id]
        params = [a.arg for a in callee.args.args]
        vals = [self._eval(a, env, p) for a in call.args]
        if not params or not vals or call.keywords or len(vals) > len(params):
            return None
        if vals[0].kind != "dul" and not (norm(call.args[0]) in ("assoc", f"{p}.assoc") and f.id.startswith("_")):
            return None  # (a private helper handed the association - `_wake(assoc)` - is expanded like one handed the provider)
        if depth >= 3:
            raise AnalysisError(f"fsm.{callee.name}: helper calls nested deeper than 3")
        bind = dict(zip(params[1:], vals[1:]))
        alts = []
        for cp in self.paths(callee, bind=bind, depth=depth + 1):
            if not cp.raised:
                alts.append((list(cp.effects), cp.ret))
        return alts or None

    def _effects_of_stmt(self, n: N, env: dict, pe: PathEffects, p: str, depth: int = 0):
        """appends the statement's effects to `pe`; returns further PathEffects when a helper call in the
        statement has more than one path (the caller's path forks there)"""
        st = n.ast
        sc = scope(n)
        forks: list[PathEffects] = []
        targets = [pe]
        for call in ordered_calls(sc):
            d = dotted(call.func) or ""
            f = call.func
            alts = self._helper_alternatives(call, env, p, depth)
            if alts is not None:
                new_targets = []
                for t in targets:
                    base_eff = list(t.effects)
                    for k, (eff, ret) in enumerate(alts):
                        tt = t if k == 0 else copy_path(t, base_eff)
                        tt.effects.extend(eff)
                        if isinstance(st, ast.Return) and st.value is call:
                            tt._helper_ret = ret
                        if k:
                            forks.append(tt)
                        new_targets.append(tt)
                targets = new_targets
                continue
            self._one_call(call, d, f, env, p, targets)
        self._bindings(n, st, env, p, targets)
        return forks

    def _one_call(self, call, d, f, env, p, targets):
        class _Multi:
            """append to every alternative at once"""

            def __init__(self, ts):
                self.ts = ts

            def append(self, e):
                for t in self.ts:
                    t.effects.append(e)

        class _PE:
            pass

        pe = _PE()
        pe.effects = _Multi(targets)
        if True:
            if d == f"{p}._send" and call.args:
                v = self._eval(call.args[0], env, p)
                pe.effects.append(("send", v, call))
            elif d == f"{p}.to_user_queue.put" and call.args:
                v = self._eval(call.args[0], env, p)
                pe.effects.append(("user", v, call))
            elif d.endswith(".dimse.receive_primitive") and call.args:
                v = self._eval(call.args[0], env, p)
                pe.effects.append(("dimse", v, call))
            elif d.startswith(f"{p}.artim_timer."):
                pe.effects.append(("artim", d.rsplit(".", 1)[1], call))
            elif d == f"{p}.kill_dul":
                pe.effects.append(("kill", None, call))
            elif d in ("evt.trigger", "trigger") and len(call.args) >= 2:
                pe.effects.append(("evt", (dotted(call.args[1]) or "?").split(".")[-1], call))
            elif d.endswith(".dimse.msg_queue.put") or (d.endswith("msg_queue.put") and call.args and norm(call.args[0]).replace(" ", "") == "(None,None)"):
                pe.effects.append(("sentinel", None, call))
            elif isinstance(f, ast.Attribute) and f.attr in (
                "close",
                "_shutdown_socket",
                "connect",
                "send",
                "recv",
            ):
                base = self._eval(f.value, env, p)
                if base.kind == "sock":
                    tag = {"_shutdown_socket": "shutdown"}.get(f.attr, f.attr)
                    pe.effects.append((tag, None, call))
                else:
                    pe.effects.append(("other", d or norm(call), call))
            elif isinstance(f, ast.Attribute) and f.attr == "from_primitive":
                tgt = self._eval(f.value, env, p)
                if tgt.kind == "new" and call.args:
                    tgt.src = self._eval(call.args[0], env, p)
            elif (
                d in ("cast", "isinstance", f"{p}._recv_pdu.get", f"{p}.to_provider_queue.get")
                or d.startswith("LOGGER.")
                or (isinstance(f, ast.Name) and (f.id in PDU_CLASSES or f.id in PRIMITIVES))
                or (isinstance(f, ast.Attribute) and f.attr == "to_primitive")
            ):
                pass
            elif d.startswith(f"{p}.") or d.startswith("sock.") or d.startswith("assoc."):
                pe.effects.append(("other", d, call))
            else:
                pe.effects.append(("other", d or norm(call), call))

    def _bindings(self, n, st, env, p, targets):
        # bindings and constant attribute writes
        if isinstance(st, ast.Assign) and n.kind == "stmt" and len(st.targets) == 1:
            t = st.targets[0]
            if isinstance(t, ast.Name):
                env[t.id] = self._eval(st.value, env, p)
            elif isinstance(t, ast.Attribute) and isinstance(t.value, ast.Name):
                obj = env.get(t.value.id)
                if obj is not None and obj.kind in ("new", "prim_of_pdu"):
                    if isinstance(st.value, ast.Constant):
                        obj.consts[t.attr] = st.value.value
                    else:
                        obj.consts[t.attr] = ("expr", norm(st.value))
        if isinstance(st, ast.Return) and n.kind == "stmt":
            for pe in targets:
                if isinstance(st.value, ast.Constant) and isinstance(st.value.value, str):
                    pe.ret = st.value.value
                elif getattr(pe, "_helper_ret", None) is not None:
                    pe.ret = pe._helper_ret
                else:
                    pe.ret = "?" + norm(st.value) if st.value else "?None"

    @staticmethod
    def _feasible(test: ast.AST, taken: bool, env: dict) -> bool:
        """Prune `x is None` / `x is not None` branches contradicted by a binding of
        `x` to the literal None (or to a freshly constructed object) on this path."""
        if (
            isinstance(test, ast.Compare)
            and len(test.ops) == 1
            and isinstance(test.ops[0], (ast.Is, ast.IsNot))
            and isinstance(test.left, ast.Name)
            and isinstance(test.comparators[0], ast.Constant)
            and test.comparators[0].value is None
        ):
            v = env.get(test.left.id)
            if v is None:
                return True
            is_none_holds = taken == isinstance(test.ops[0], ast.Is)
            if v.kind == "none":
                return is_none_holds
            if v.kind == "new":
                return not is_none_holds
        return True

    def paths(self, fn: ast.FunctionDef, bind: dict | None = None, depth: int = 0) -> list[PathEffects]:
        if not fn.args.args:
            raise AnalysisError(f"action {fn.name} has no provider parameter")
        p = fn.args.args[0].arg
        cfg = CFG(fn, body=body_nodoc(fn))
        out = []
        for path in cfg.paths(max_paths=400):
            pe = PathEffects()
            env: dict[str, Val] = dict(bind or {})
            extra: list[PathEffects] = []
            if path[-1] is cfg.raise_exit:
                pe.raised = True
            for i, n in enumerate(path):
                if n.ast is None or n.kind in ("with_exit", "try", "finally", "join"):
                    continue
                if n.kind == "handler":
                    continue
                nxt_label = None
                if i + 1 < len(path):
                    for m, lab in n.succ:
                        if m is path[i + 1]:
                            nxt_label = lab
                            break
                # an `exc` edge out of a node means the node did not complete: its
                # effects are not counted on that path (conservative for "must" rules:
                # the path then lacks the effect; raising paths are judged separately)
                if nxt_label == "exc":
                    pe.lines.append(n.line)
                    continue
                live = [pe] + extra
                for q in live:
                    if q is pe:
                        extra.extend(self._effects_of_stmt(n, env, q, p, depth))
                    else:
                        # an alternative forked earlier on this path: same statement, its own effect list
                        extra.extend(self._effects_of_stmt(n, dict(env), q, p, depth))
                for q in [pe] + extra:
                    q.lines.append(n.line) if (not q.lines or q.lines[-1] != n.line) else None
                if n.kind == "test" and nxt_label in ("true", "false"):
                    for q in [pe] + extra:
                        q.conds.append((norm(n.ast.test), nxt_label == "true"))
                        q.cond_nodes.append((n.ast.test, nxt_label == "true"))
                    if not self._feasible(n.ast.test, nxt_label == "true", env):
                        pe = None
                        break
            if pe is not None:
                out.append(pe)
                out.extend(extra)
        return out


def copy_path(t: PathEffects, effects: list) -> PathEffects:
    c = PathEffects()
    c.effects = list(effects)
    c.ret = t.ret
    c.conds = list(t.conds)
    c.cond_nodes = list(t.cond_nodes)
    c.lines = list(t.lines)
    c.raised = t.raised
    return c
