"""Safe inlining of single-use temporaries - the inverse of the 'introduce a local' refactor.

    t = E                  S[E]         when  * t is a plain local bound exactly once and read exactly
    S[t]          ==>                           once in the whole function (nested scopes included),
                                              * the read is in the statement that immediately follows
                                                the binding in the same block,
                                              * the read is evaluated exactly once and unconditionally
                                                when S starts (not under and/or/if-else operands, not in
                                                a lambda / comprehension body, not a while test),
                                              * everything S evaluates before the read is a name, a
                                                constant or an attribute chain on them (so E does not
                                                move across a call, a subscript, an operator ...),
                                              * E contains no yield / await / walrus.

Under these conditions the two spellings evaluate the same expressions in the same order, so the
rewrite preserves behaviour, exceptions included.  It is used only to decide whether a function of the
tree under analysis is the reference function up to such temporaries (alpha.py); rules never see a
function that was only partly inlined.
"""

from __future__ import annotations

import ast

from .canon import inert

_PURE_BEFORE = (ast.Name, ast.Constant, ast.Attribute, ast.Load, ast.Store, ast.expr_context, ast.keyword, ast.Starred, ast.Tuple, ast.List)


class _Scan:
    """walk an expression in evaluation order until `target`; record whether anything impure was
    evaluated before it and whether it sits in a conditionally / repeatedly / lazily evaluated position"""

    def __init__(self, target: ast.AST):
        self.target = target
        self.impure_before = False
        self.conditional = False
        self.found = False

    def visit(self, n: ast.AST | None, cond: bool = False) -> None:
        if n is None or self.found:
            return
        if n is self.target:
            self.found = True
            self.conditional = cond
            return
        if isinstance(n, ast.BoolOp):
            self.visit(n.values[0], cond)
            for v in n.values[1:]:
                self.visit(v, True)
            return
        if isinstance(n, ast.IfExp):
            self.visit(n.test, cond)
            self.visit(n.body, True)
            self.visit(n.orelse, True)
            return
        if isinstance(n, ast.Compare):
            self.visit(n.left, cond)
            self.visit(n.comparators[0], cond)
            for c in n.comparators[1:]:
                self.visit(c, True)
            if not self.found:
                self.impure_before = True  # rich comparison may run user code
            return
        if isinstance(n, (ast.Lambda, ast.ListComp, ast.SetComp, ast.DictComp, ast.GeneratorExp)):
            if any(x is self.target for x in ast.walk(n)):
                self.found = True
                self.conditional = True
            else:
                self.impure_before = True
            return
        if isinstance(n, ast.Dict):
            for k, v in zip(n.keys, n.values):
                self.visit(k, cond)
                self.visit(v, cond)
            return
        if isinstance(n, (ast.Await, ast.Yield, ast.YieldFrom, ast.NamedExpr)):
            for c in ast.iter_child_nodes(n):
                self.visit(c, cond)
            if not self.found:
                self.impure_before = True
            return
        for c in ast.iter_child_nodes(n):
            self.visit(c, cond)
            if self.found:
                return
        # the node's own operation happens after its children and before whatever follows
        if not isinstance(n, _PURE_BEFORE) and not isinstance(n, (ast.JoinedStr, ast.FormattedValue)):
            self.impure_before = True


def _regions(st: ast.stmt) -> list[ast.AST] | None:
    """expressions evaluated once, unconditionally, when the statement starts - in evaluation order"""
    if isinstance(st, ast.Expr):
        return [st.value]
    if isinstance(st, ast.Assign):
        return [st.value] + list(st.targets)
    if isinstance(st, ast.AnnAssign):
        return ([st.value] if st.value is not None else []) + [st.target]
    if isinstance(st, ast.AugAssign):
        return [st.value] if isinstance(st.target, ast.Name) else None
    if isinstance(st, ast.Return):
        return [st.value] if st.value is not None else []
    if isinstance(st, ast.Raise):
        return [x for x in (st.exc, st.cause) if x is not None]
    if isinstance(st, ast.Assert):
        return [st.test]
    if isinstance(st, ast.If):
        return [st.test]
    if isinstance(st, ast.For):
        return [st.iter]
    return None


def _blocks(fn: ast.AST):
    for n in ast.walk(fn):
        for fld in ("body", "orelse", "finalbody"):
            b = getattr(n, fld, None)
            if isinstance(b, list) and b and isinstance(b[0], ast.stmt):
                yield b
        if isinstance(n, ast.Try):
            for h in n.handlers:
                yield h.body
        if isinstance(n, ast.Match):
            for c in n.cases:
                yield c.body


def _replace(root: ast.AST, old: ast.AST, new: ast.AST) -> bool:
    for n in ast.walk(root):
        for fld, val in ast.iter_fields(n):
            if val is old:
                setattr(n, fld, new)
                return True
            if isinstance(val, list):
                for i, x in enumerate(val):
                    if x is old:
                        val[i] = new
                        return True
    return False


def inline_temps(fn: ast.FunctionDef, locals_: set[str]) -> int:
    """inline every safe single-use temporary of `fn` in place (to a fixpoint); returns how many"""
    total = 0
    while True:
        loads: dict[str, list[ast.Name]] = {}
        stores: dict[str, int] = {}
        for n in ast.walk(fn):
            if isinstance(n, ast.Name):
                if isinstance(n.ctx, ast.Load):
                    loads.setdefault(n.id, []).append(n)
                else:
                    stores[n.id] = stores.get(n.id, 0) + 1
            elif isinstance(n, ast.ExceptHandler) and n.name:
                stores[n.name] = stores.get(n.name, 0) + 2
        changed = False
        for b in _blocks(fn):
            i = 0
            while i < len(b) - 1:
                s, nxt = b[i], b[i + 1]
                tgt = None
                if isinstance(s, ast.Assign) and len(s.targets) == 1 and isinstance(s.targets[0], ast.Name):
                    tgt, val = s.targets[0].id, s.value
                elif isinstance(s, ast.AnnAssign) and isinstance(s.target, ast.Name) and s.value is not None:
                    tgt, val = s.target.id, s.value
                if tgt is not None and tgt in locals_ and stores.get(tgt) == 1 and not loads.get(tgt) and inert(val):
                    # a temporary nobody reads any more (its only reader was an inert log line the canon
                    # pass dropped) holding a value whose evaluation does nothing: a dead store
                    del b[i]
                    changed = True
                    total += 1
                    continue
                if tgt is None or tgt not in locals_ or stores.get(tgt) != 1 or len(loads.get(tgt, ())) != 1:
                    i += 1
                    continue
                if any(isinstance(x, (ast.Yield, ast.YieldFrom, ast.Await, ast.NamedExpr)) for x in ast.walk(val)):
                    i += 1
                    continue
                use = loads[tgt][0]
                regs = _regions(nxt)
                if regs is None:
                    i += 1
                    continue
                sc = _Scan(use)
                for r in regs:
                    sc.visit(r)
                    if sc.found:
                        break
                if not sc.found or sc.conditional or sc.impure_before:
                    i += 1
                    continue
                if not _replace(nxt, use, val):
                    i += 1
                    continue
                del b[i]
                del loads[tgt]
                changed = True
                total += 1
                # stay at the same index: the statement that received E may itself now be a temp's use
                if i > 0:
                    i -= 1
        if not changed:
            return total
