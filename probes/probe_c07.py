"""Dynamic confirmation (not a check): release request arriving while a C-FIND handler is yielding."""
import time, logging
from pydicom.dataset import Dataset
from pynetdicom import AE, evt
from pynetdicom.sop_class import PatientRootQueryRetrieveInformationModelFind as M
logging.getLogger("pynetdicom").setLevel(logging.CRITICAL)
def h(event):
    for i in range(6):
        ds = Dataset(); ds.PatientName = f"X{i}"; ds.QueryRetrieveLevel = "PATIENT"
        time.sleep(0.2)
        yield 0xFF00, ds
ae = AE(); ae.acse_timeout = 3; ae.dimse_timeout = 3; ae.network_timeout = 5
ae.add_supported_context(M); ae.add_requested_context(M)
pdus = []
scp = ae.start_server(("127.0.0.1", 11198), block=False, evt_handlers=[(evt.EVT_C_FIND, h), (evt.EVT_PDU_SENT, lambda e: pdus.append(e.pdu.__class__.__name__))])
assoc = ae.associate("127.0.0.1", 11198)
q = Dataset(); q.QueryRetrieveLevel = "PATIENT"; q.PatientName = ""
it = assoc.send_c_find(q, M)
next(it)
t0 = time.time()
assoc.release()
dt = time.time() - t0
print(f"requestor: released={assoc.is_released} aborted={assoc.is_aborted} after {dt:.1f}s; acceptor sent {[p for p in pdus if p != 'P_DATA_TF']}")
scp.shutdown()
