"""Dynamic confirmation (not a check) of the C05 ARTIM finding: A-ASSOCIATE-RQ dribbled across the
ARTIM deadline -> AE-6 stops the timer after the deadline -> Timer keeps reporting expired ->
Evt18 in Sta3 -> InvalidEventError -> provider thread dies."""
import socket, threading, time, logging, sys
from pynetdicom import AE, evt
from pynetdicom.sop_class import Verification
logging.getLogger("pynetdicom").setLevel(logging.CRITICAL)
import os
if os.environ.get("DBG"): logging.basicConfig(level=logging.DEBUG); logging.getLogger("pynetdicom").setLevel(logging.DEBUG)

# 1. capture a valid A-ASSOCIATE-RQ
srv = socket.socket(); srv.setsockopt(socket.SOL_SOCKET, socket.SO_REUSEADDR, 1); srv.bind(("127.0.0.1", 11197)); srv.listen(1)
cap = {}
def grab():
    c, _ = srv.accept(); cap["rq"] = c.recv(65536); c.close()
t = threading.Thread(target=grab); t.start()
ae = AE(); ae.add_requested_context(Verification); ae.acse_timeout = 1; ae.connection_timeout = 1
ae.associate("127.0.0.1", 11197); t.join(); srv.close()
rq = cap["rq"]; assert rq[0] == 1

from pynetdicom import fsm as _fsm
_orig = _fsm.StateMachine.do_action
def _logged(self, event):
    transitions.append(("do_action", self.current_state, event, round(time.time() - T0, 2)))
    return _orig(self, event)
_fsm.StateMachine.do_action = _logged
T0 = time.time()
# 2. replay it slowly against a real acceptor whose ARTIM timeout is 0.5 s
errors = []
transitions = []
threading.excepthook = lambda a: errors.append(a.exc_type.__name__ + ": " + str(a.exc_value)[:80])
scp_ae = AE(); scp_ae.add_supported_context(Verification); scp_ae.acse_timeout = 0.5; scp_ae.network_timeout = 5
scp = scp_ae.start_server(("127.0.0.1", 11196), block=False, evt_handlers=[(evt.EVT_FSM_TRANSITION, lambda e: transitions.append((e.current_state, e.fsm_event, e.action)))])
c = socket.create_connection(("127.0.0.1", 11196))
time.sleep(0.2); c.sendall(rq[:6]); time.sleep(0.6); c.sendall(rq[6:])
c.settimeout(3)
try:
    rsp = c.recv(4096)
except Exception as exc:
    rsp = repr(exc)
time.sleep(1.5)
print("transitions:", transitions)
print("thread exceptions:", errors)
print("reply:", (hex(rsp[0]) if isinstance(rsp, bytes) and rsp else rsp))
c.close(); scp.shutdown()
