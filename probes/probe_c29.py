"""C29 probes against qrscp's db.search(): identifiers as they arrive from the wire."""
import sys
from io import BytesIO
from pydicom import dcmread
from pydicom.dataset import Dataset
from pynetdicom.dsutils import encode, decode
from pynetdicom.apps.qrscp import db
from pynetdicom.sop_class import PatientRootQueryRetrieveInformationModelFind as PR
from sqlalchemy.orm import sessionmaker
engine = db.create("sqlite:///:memory:")
session = sessionmaker(bind=engine)()
ds = dcmread("/repo/pynetdicom/tests/dicom_files/CTImageStorage.dcm")
db.add_instance(ds, session)
print("stored PatientName:", repr(str(ds.PatientName)), "PatientID:", repr(ds.PatientID))

def wire(d):
    return decode(BytesIO(encode(d, True, True)), True, True)

def q(**kw):
    i = Dataset(); i.QueryRetrieveLevel = "PATIENT"
    for k, v in kw.items(): setattr(i, k, v)
    try:
        return len(db.search(PR, wire(i), session))
    except Exception as e:
        return f"{type(e).__name__}: {e}"
print("universal (zero-length PatientName from the wire)  ->", q(PatientName=""), "(expected 1)")
print("universal (value None, as the tests build it)       ->", end=" ")
i = Dataset(); i.QueryRetrieveLevel = "PATIENT"; i.PatientName = None
print(len(db.search(PR, i, session)))
print("wildcard lower-case 'ct*' on PatientID (case-sensitive VR LO) ->", q(PatientID=ds.PatientID.lower()[:2] + "*"), "(expected 0 unless the id is lower case)")
print("literal '_' treated as wildcard: PatientID", repr(ds.PatientID[:-1] + "_*"), "->", q(PatientID=ds.PatientID[:-1] + "_*"), "(expected 0)")
print("literal '%' treated as wildcard: PatientID '%*' ->", q(PatientID="%*"), "(expected 0)")
i = Dataset(); i.QueryRetrieveLevel = "STUDY"; i.PatientID = ds.PatientID; i.StudyInstanceUID = [ds.StudyInstanceUID, "1.2.3"]
try:
    print("UID list matching ->", len(db.search(PR, wire(i), session)), "(expected 1)")
except Exception as e:
    print("UID list matching ->", type(e).__name__, str(e)[:100], "(expected 1)")
