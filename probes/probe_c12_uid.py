"""C12 ui-legal: with the default configuration a UID that is illegal for VR UI is put on the wire."""
import socket, threading
from pynetdicom import AE, build_context
srv = socket.socket(); srv.bind(("127.0.0.1", 0)); srv.listen(1); port = srv.getsockname()[1]
got = []
def run():
    c, _ = srv.accept(); c.settimeout(2)
    try:
        got.append(c.recv(4096))
    except Exception: pass
    c.close()
t = threading.Thread(target=run); t.start()
ae = AE(); ae.acse_timeout = 1; ae.dimse_timeout = 1; ae.network_timeout = 1
cx = build_context("1.2.840.10008.01.abc..5", "1.2.840.10008.1.2")
assoc = ae.associate("127.0.0.1", port, contexts=[cx])
t.join()
print("non-conformant UID on the wire:", b"1.2.840.10008.01.abc..5" in got[0])
