import sys, time
from pydicom import dcmread
from pynetdicom import AE, evt, _config
from pynetdicom.sop_class import CTImageStorage
from pydicom.data import get_testdata_file
import os
ds = dcmread('/repo/pynetdicom/tests/dicom_files/CTImageStorage.dcm')
out = {}
def h(event):
    out['chunk_nometa'] = event.encoded_dataset(include_meta=False)
    out['chunk_meta'] = event.encoded_dataset()
    return 0
_config.STORE_RECV_CHUNKED_DATASET = True
ae = AE(); ae.add_supported_context(CTImageStorage); ae.add_requested_context(CTImageStorage)
scp = ae.start_server(('127.0.0.1', 11199), block=False, evt_handlers=[(evt.EVT_C_STORE, h)])
a = ae.associate('127.0.0.1', 11199); a.send_c_store(ds); a.release(); scp.shutdown()
_config.STORE_RECV_CHUNKED_DATASET = False
out2={}
def h2(event):
    out2['nometa'] = event.encoded_dataset(include_meta=False)
    out2['meta'] = event.encoded_dataset()
    return 0
scp = ae.start_server(('127.0.0.1', 11199), block=False, evt_handlers=[(evt.EVT_C_STORE, h2)])
a = ae.associate('127.0.0.1', 11199); a.send_c_store(ds); a.release(); scp.shutdown()
print(len(out['chunk_nometa']), len(out2['nometa']), out['chunk_nometa']==out2['nometa'], out['chunk_meta']==out2['meta'])
