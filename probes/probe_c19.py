from io import BytesIO
from pydicom import dcmread
from pynetdicom import AE, evt, build_role
from pynetdicom.dimse_primitives import C_STORE
from pynetdicom.dsutils import encode
from pynetdicom.sop_class import CTImageStorage
ds = dcmread('/repo/pynetdicom/tests/dicom_files/CTImageStorage.dcm')
called=[]
def h(event):
    called.append(1); return 0
ae = AE(); ae.acse_timeout=5; ae.dimse_timeout=5; ae.network_timeout=5
ae.add_supported_context(CTImageStorage, scu_role=True, scp_role=True)
scp = ae.start_server(('127.0.0.1', 11198), block=False)
ae.add_requested_context(CTImageStorage)
role = build_role(CTImageStorage, scu_role=True, scp_role=True)
a = ae.associate('127.0.0.1', 11198, ext_neg=[role], evt_handlers=[(evt.EVT_C_STORE, h)])
req = C_STORE(); req.MessageID=1; req.AffectedSOPClassUID=ds.SOPClassUID; req.AffectedSOPInstanceUID=ds.SOPInstanceUID; req.Priority=1
req._context_id = 99
req.DataSet = BytesIO(encode(ds, True, True))
sent=[]
orig = a.dimse.send_msg
a.dimse.send_msg = lambda p, cid: (sent.append((p.__class__.__name__, getattr(p,'Status',None), cid)), orig(p, cid))
a._c_store_scp(req)
print("handler called:", bool(called), "sent:", sent, "aborted:", a.is_aborted)
if not a.is_aborted: a.release()
scp.shutdown()
