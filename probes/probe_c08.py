"""C08 recv-bounded: a peer that stops part-way through a PDU keeps the acceptor's threads alive
past every configured timeout (all set to 1 s)."""
import socket, threading, time
from pynetdicom import AE
from pynetdicom.sop_class import Verification
ae = AE(); ae.acse_timeout = 1; ae.dimse_timeout = 1; ae.network_timeout = 1; ae.connection_timeout = 1
ae.add_supported_context(Verification)
scp = ae.start_server(("127.0.0.1", 11197), block=False)
s = socket.create_connection(("127.0.0.1", 11197))
s.sendall(b"\x01\x00\x00\x00\x00\x40" + b"\x00" * 10)   # header announces 64 bytes, 10 sent
time.sleep(5)
alive = [t.name for t in threading.enumerate() if "Acceptor" in t.name or "DUL" in t.name or t.__class__.__name__ in ("Association", "DULServiceProvider")]
print("threads still alive after 5 s with all timeouts = 1 s:", alive)
s.close(); scp.shutdown()
