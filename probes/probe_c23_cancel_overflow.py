"""probe: more than 10 unconsumed C-CANCEL requests. The 11th is put on the DIMSE message queue like an ordinary
request; when the reactor gets to it, Association._serve_request() reads `is_valid_request`, which C_CANCEL does
not have -> AttributeError kills the acceptor's association thread. The peer's A-RELEASE-RQ is then never
answered (C07) and the cancel is never matched to an operation (C23).

Run against a checkout:  cd <checkout> && unshare -n -- bash -c "ip link set lo up; /venv/bin/python /verif/probes/probe_c23_cancel_overflow.py"
Prints `association thread alive after the operation: <bool>` and `release answered: <bool>`."""
import socket
import threading
import time

from pydicom.dataset import Dataset

from pynetdicom import AE, evt
from pynetdicom.sop_class import PatientRootQueryRetrieveInformationModelFind as MODEL


def main(n_cancels=11):
    gate = threading.Event()

    def handle_find(event):
        for ii in range(2):
            if ii == 1:
                gate.wait(20)
            ds = Dataset()
            ds.QueryRetrieveLevel = "PATIENT"
            ds.PatientID = f"ID{ii}"
            yield 0xFF00, ds

    ae = AE()
    ae.acse_timeout = 5
    ae.dimse_timeout = 10
    ae.network_timeout = 30
    ae.add_supported_context(MODEL)
    ae.add_requested_context(MODEL)
    with socket.socket() as s:
        s.bind(("localhost", 0))
        port = s.getsockname()[1]
    scp = ae.start_server(("localhost", port), block=False, evt_handlers=[(evt.EVT_C_FIND, handle_find)])
    try:
        assoc = ae.associate("localhost", port)
        assert assoc.is_established
        time.sleep(0.2)
        acceptor = scp.active_associations[0]
        q = Dataset()
        q.QueryRetrieveLevel = "PATIENT"
        q.PatientID = "*"
        rsp = assoc.send_c_find(q, MODEL, msg_id=7)
        next(rsp)
        for k in range(n_cancels):
            assoc.send_c_cancel(100 + k, query_model=MODEL)
        time.sleep(1.0)
        gate.set()
        statuses = [s_.Status for s_, _ in rsp if s_]
        time.sleep(1.0)
        print("C-FIND statuses after the first:", [hex(x) for x in statuses])
        print("association thread alive after the operation:", acceptor.is_alive())
        t0 = time.time()
        assoc.release()
        print("release answered:", assoc.is_released, f"({time.time() - t0:.1f}s)", "aborted:", assoc.is_aborted)
    finally:
        gate.set()
        for aa in ae.active_associations:
            aa.abort()
        scp.shutdown()


if __name__ == "__main__":
    import sys

    main(int(sys.argv[1]) if len(sys.argv) > 1 else 11)
