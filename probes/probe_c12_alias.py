"""C12 ids: the same PresentationContext object twice in `contexts` gives duplicate context ids."""
import socket, threading
from pynetdicom import AE, build_context
from pynetdicom.pdu import A_ASSOCIATE_RQ
srv = socket.socket(); srv.bind(("127.0.0.1", 0)); srv.listen(1); port = srv.getsockname()[1]
got = []
def run():
    c, _ = srv.accept(); c.settimeout(2)
    try: got.append(c.recv(8192))
    except Exception: pass
    c.close()
t = threading.Thread(target=run); t.start()
ae = AE(); ae.acse_timeout = 1; ae.dimse_timeout = 1; ae.network_timeout = 1
cx = build_context("1.2.840.10008.1.1")
ae.associate("127.0.0.1", port, contexts=[cx, cx])
t.join()
pdu = A_ASSOCIATE_RQ(); pdu.decode(got[0])
print("context ids on the wire:", [c.context_id for c in pdu.presentation_context])
