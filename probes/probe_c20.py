"""Dynamic confirmation (not a check) of C20 candidate findings against the real code.
Run inside a private network namespace:  unshare -n -- bash -c "ip link set lo up; /venv/bin/python probes/probe_c20.py"
"""
import time, sys, threading
from pydicom.dataset import Dataset
from pynetdicom import AE, evt, debug_logger
from pynetdicom.sop_class import (PatientRootQueryRetrieveInformationModelFind, GeneralRelevantPatientInformationQuery,
                                  DisplaySystem, ModalityPerformedProcedureStep, Verification)
from pynetdicom.dimse_primitives import C_FIND, N_ACTION
import logging
logging.getLogger("pynetdicom").setLevel(logging.CRITICAL)

def run(name, ctx, handlers, do):
    ae = AE(); ae.acse_timeout = 3; ae.dimse_timeout = 3; ae.network_timeout = 3
    ae.add_supported_context(ctx); ae.add_requested_context(ctx)
    pdus = []
    def sent(event):
        pdus.append(event.message.__class__.__name__ + ":" + hex(event.message.command_set.get("Status", -1)) if "Status" in event.message.command_set else event.message.__class__.__name__)
    scp = ae.start_server(("127.0.0.1", 11199), block=False, evt_handlers=handlers + [(evt.EVT_DIMSE_SENT, sent)])
    assoc = ae.associate("127.0.0.1", 11199)
    assert assoc.is_established
    try:
        res = do(assoc)
    finally:
        time.sleep(0.3)
        state = ("aborted" if assoc.is_aborted else "established" if assoc.is_established else "other")
        if assoc.is_established: assoc.release()
        scp.shutdown()
    print(f"{name}: SCP sent {pdus}; requestor result {res}; association {state}")

# 1. C-FIND handler yields Pending, general Warning 0x0107, Pending
def h1(event):
    ds = Dataset(); ds.PatientName = "X"; ds.QueryRetrieveLevel = "PATIENT"
    yield 0xFF00, ds
    yield 0x0107, None
    yield 0xFF00, ds
def d1(assoc):
    q = Dataset(); q.QueryRetrieveLevel = "PATIENT"; q.PatientName = ""
    return [hex(s.Status) if s and "Status" in s else None for s, i in assoc.send_c_find(q, PatientRootQueryRetrieveInformationModelFind)]
run("find-warning-nonfinal", PatientRootQueryRetrieveInformationModelFind, [(evt.EVT_C_FIND, h1)], d1)

# 2. C-FIND handler yields a bare int (wrong shape)
def h2(event):
    yield 0xFF00
run("find-wrong-shape", PatientRootQueryRetrieveInformationModelFind, [(evt.EVT_C_FIND, h2)], d1)

# 3. Relevant patient: handler yields a Warning status
def h3(event):
    yield 0x0107, None
def d3(assoc):
    q = Dataset(); q.PatientName = ""
    return [hex(s.Status) if s and "Status" in s else None for s, i in assoc.send_c_find(q, GeneralRelevantPatientInformationQuery)]
run("relevant-patient-warning", GeneralRelevantPatientInformationQuery, [(evt.EVT_C_FIND, h3)], d3)

# 4. N-GET handler returns a bare int
def h4(event):
    return 0x0000
def d4(assoc):
    s, ds = assoc.send_n_get([(0x0008, 0x0070)], DisplaySystem, "1.2.840.10008.5.1.1.40.1")
    return hex(s.Status) if s and "Status" in s else None
run("n-get-wrong-shape", DisplaySystem, [(evt.EVT_N_GET, h4)], d4)
