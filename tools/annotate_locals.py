#!/venv/bin/python
"""Robustness experiment: every plain assignment to a local name inside a function becomes an annotated
assignment (`x = v` -> `x: object = v`) - what adding type annotations to locals does to the syntax tree.
usage: annotate_locals.py <tree>"""
import ast, pathlib, sys


class T(ast.NodeTransformer):
    def __init__(self):
        self.depth = 0

    def visit_FunctionDef(self, node):
        self.depth += 1
        self.generic_visit(node)
        self.depth -= 1
        return node

    visit_AsyncFunctionDef = visit_FunctionDef

    def visit_Assign(self, node):
        self.generic_visit(node)
        if self.depth > 0 and len(node.targets) == 1 and isinstance(node.targets[0], ast.Name):
            return ast.copy_location(ast.AnnAssign(target=node.targets[0], annotation=ast.Name(id="object", ctx=ast.Load()), value=node.value, simple=1), node)
        return node


k = 0
for p in pathlib.Path(sys.argv[1], "pynetdicom").rglob("*.py"):
    if "/tests/" in str(p):
        continue
    t = T().visit(ast.parse(p.read_text()))
    ast.fix_missing_locations(t)
    src = ast.unparse(t) + "\n"
    compile(src, str(p), "exec")
    p.write_text(src)
    k += 1
print(k, "files rewritten")
