#!/venv/bin/python
"""Robustness experiment: rewrite a scratch tree with (1) constants moved to the left of ==, !=, is,
is not, (2) list literals in membership tests turned into tuples, (3) a LOGGER.debug() call inserted
at the top of every function of a module that has a LOGGER; everything re-printed by ast.unparse.
usage: misc_rewrites.py <tree>"""
import ast, pathlib, sys


class T(ast.NodeTransformer):
    has_logger = False

    def visit_Compare(self, n):
        self.generic_visit(n)
        if len(n.ops) == 1 and isinstance(n.ops[0], (ast.Eq, ast.NotEq, ast.Is, ast.IsNot)) and isinstance(n.comparators[0], ast.Constant) and n.comparators[0].value is not None:
            n.left, n.comparators = n.comparators[0], [n.left]
        if len(n.ops) == 1 and isinstance(n.ops[0], (ast.In, ast.NotIn)) and isinstance(n.comparators[0], ast.List):
            n.comparators = [ast.Tuple(elts=n.comparators[0].elts, ctx=ast.Load())]
        return n

    def visit_FunctionDef(self, fn):
        self.generic_visit(fn)
        if self.has_logger:
            body = fn.body
            i = 1 if body and isinstance(body[0], ast.Expr) and isinstance(body[0].value, ast.Constant) and isinstance(body[0].value.value, str) else 0
            call = ast.Expr(value=ast.Call(func=ast.Attribute(value=ast.Name(id="LOGGER", ctx=ast.Load()), attr="debug", ctx=ast.Load()), args=[ast.Constant(value="enter " + fn.name)], keywords=[]))
            fn.body = body[:i] + [call] + body[i:]
        return fn


k = 0
for p in pathlib.Path(sys.argv[1], "pynetdicom").rglob("*.py"):
    src0 = p.read_text()
    t = ast.parse(src0)
    tr = T()
    tr.has_logger = "LOGGER = " in src0
    tr.visit(t)
    ast.fix_missing_locations(t)
    src = ast.unparse(t) + "\n"
    compile(src, str(p), "exec")
    p.write_text(src)
    k += 1
print(k, "files rewritten")
