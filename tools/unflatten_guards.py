#!/venv/bin/python
"""Robustness experiment: every guard clause `if c: <...; return/raise/continue/break>` followed by more statements
in the same block is rewritten as `if c: <...> else: <the following statements>` (behaviour-preserving)."""
import ast, pathlib, sys


def must_exit(stmts):
    if not stmts:
        return False
    s = stmts[-1]
    if isinstance(s, (ast.Return, ast.Raise, ast.Continue, ast.Break)):
        return True
    if isinstance(s, ast.If) and s.orelse:
        return must_exit(s.body) and must_exit(s.orelse)
    return False


def rewrite(block):
    out = []
    i = 0
    while i < len(block):
        s = block[i]
        for fld in ("body", "orelse", "finalbody"):
            b = getattr(s, fld, None)
            if isinstance(b, list) and b and isinstance(b[0], ast.stmt) and not isinstance(s, (ast.ClassDef,)):
                setattr(s, fld, rewrite(b))
        if isinstance(s, ast.Try):
            for h in s.handlers:
                h.body = rewrite(h.body)
        if isinstance(s, ast.If) and not s.orelse and must_exit(s.body) and i + 1 < len(block) and not any(isinstance(x, (ast.FunctionDef, ast.ClassDef)) for x in block[i + 1:]):
            s.orelse = rewrite(block[i + 1:])
            out.append(s)
            return out
        out.append(s)
        i += 1
    return out


k = 0
for p in pathlib.Path(sys.argv[1], "pynetdicom").rglob("*.py"):
    if "/tests/" in str(p):
        continue
    t = ast.parse(p.read_text())
    for fn in ast.walk(t):
        if isinstance(fn, (ast.FunctionDef, ast.AsyncFunctionDef)):
            fn.body = rewrite(fn.body)
    ast.fix_missing_locations(t)
    src = ast.unparse(t) + "\n"
    compile(src, str(p), "exec")
    p.write_text(src)
    k += 1
print(k, "files rewritten")
