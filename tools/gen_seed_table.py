#!/venv/bin/python
"""Print the markdown table of kept seeds (DESIGN.md section 13) from seeded/*/meta.json."""
import glob, json, os
HERE = os.path.dirname(os.path.dirname(os.path.abspath(__file__)))
print("| seed | property | needs, to manifest | caught by |")
print("|---|---|---|---|")
for p in sorted(glob.glob(os.path.join(HERE, "seeded", "*", "meta.json"))):
    m = json.load(open(p))
    print(f"| {m['id']} | {m['property']} | {m['needs_to_manifest']} | {m['caught_by']} |")
