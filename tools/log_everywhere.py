#!/venv/bin/python
"""Robustness experiment: a LOGGER.debug(type(<first parameter>).__name__) statement (an attribute read and a call in its
argument, so not an "inert" log line) inserted at the top of every function of every module that has a LOGGER."""
import ast, pathlib, sys
class T(ast.NodeTransformer):
    has_logger=False
    def visit_FunctionDef(self, fn):
        self.generic_visit(fn)
        if self.has_logger and fn.args.args:
            a=fn.args.args[0].arg
            body=fn.body
            i = 1 if body and isinstance(body[0], ast.Expr) and isinstance(body[0].value, ast.Constant) and isinstance(body[0].value.value, str) else 0
            call=ast.parse(f"LOGGER.debug(type({a}).__name__)").body[0]
            fn.body=body[:i]+[call]+body[i:]
        return fn
k=0
for p in pathlib.Path(sys.argv[1],"pynetdicom").rglob("*.py"):
    if "/tests/" in str(p): continue
    src=p.read_text(); t=ast.parse(src); tr=T(); tr.has_logger="LOGGER = " in src; tr.visit(t); ast.fix_missing_locations(t)
    out=ast.unparse(t)+"\n"; compile(out,str(p),"exec"); p.write_text(out); k+=1
print(k)
