#!/usr/bin/env python3
"""tools/undefined_names.py - names used in sa/ modules that no scope defines (a cheap stand-in for pyflakes)"""
import ast, builtins, sys, glob
bad = 0
for p in sorted(glob.glob("/verif/sa/**/*.py", recursive=True)):
    t = ast.parse(open(p).read())
    defined = set(dir(builtins)) | {"__file__"}
    for n in ast.walk(t):
        if isinstance(n, (ast.Import, ast.ImportFrom)):
            for a in n.names:
                defined.add((a.asname or a.name).split(".")[0])
        elif isinstance(n, (ast.FunctionDef, ast.ClassDef, ast.AsyncFunctionDef)):
            defined.add(n.name)
            if not isinstance(n, ast.ClassDef):
                for a in n.args.args + n.args.kwonlyargs + n.args.posonlyargs + ([n.args.vararg] if n.args.vararg else []) + ([n.args.kwarg] if n.args.kwarg else []):
                    defined.add(a.arg)
        elif isinstance(n, ast.Lambda):
            for a in n.args.args + n.args.kwonlyargs + ([n.args.vararg] if n.args.vararg else []) + ([n.args.kwarg] if n.args.kwarg else []):
                defined.add(a.arg)
        elif isinstance(n, ast.Name) and isinstance(n.ctx, (ast.Store, ast.Del)):
            defined.add(n.id)
        elif isinstance(n, ast.ExceptHandler) and n.name:
            defined.add(n.name)
        elif isinstance(n, (ast.Global, ast.Nonlocal)):
            defined.update(n.names)
    for n in ast.walk(t):
        if isinstance(n, ast.Name) and isinstance(n.ctx, ast.Load) and n.id not in defined:
            print(f"{p}:{n.lineno}: undefined name {n.id}")
            bad += 1
sys.exit(1 if bad else 0)
