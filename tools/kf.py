#!/venv/bin/python
"""tools/kf.py add <replay.json> "<what fails>"   - list a genuine defect as a known finding
   tools/kf.py fixed <property> <commit> "<what failed>" - record a repaired defect (suppresses nothing)"""
import json, sys, os
HERE = os.path.dirname(os.path.dirname(os.path.abspath(__file__)))
P = os.path.join(HERE, "known_findings.json")
doc = json.load(open(P))
if sys.argv[1] == "add":
    r = json.load(open(sys.argv[2]))
    e = {"property": r["property"], "rule": r["rule"], "key": r["key"], "status": "known", "what": sys.argv[3], "where_when_listed": r.get("where", "")}
    doc["findings"] = [f for f in doc["findings"] if not (f["property"] == e["property"] and f.get("rule") == e["rule"] and f.get("key") == e["key"])]
    doc["findings"].append(e)
elif sys.argv[1] == "fixed":
    doc["findings"].append({"property": sys.argv[2], "status": "fixed", "commit": sys.argv[3], "what": sys.argv[4],
                            "line": f"fixed: property={sys.argv[2]} {sys.argv[3]} {sys.argv[4]}"})
json.dump(doc, open(P, "w"), indent=1)
print(len(doc["findings"]), "entries")
