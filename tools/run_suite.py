#!/venv/bin/python
"""Run pynetdicom's pinned suite on a tree, sharded by test file, each shard in its own
network namespace (unshare -n; fixed ports would collide otherwise), and compare the
outcome with BASELINE.json's stable_pass list.

usage: run_suite.py <tree> [--jobs N] [--out DIR] [--only substr]
Not a check: this is the gate for merging "fix:" commits into /repo.
"""
import argparse
import glob
import json
import os
import subprocess
import sys
import xml.etree.ElementTree as ET
from concurrent.futures import ThreadPoolExecutor


def shard_files(tree):
    files = sorted(glob.glob(os.path.join(tree, "pynetdicom", "**", "test_*.py"), recursive=True))
    files = [f for f in files if "/benchmarks/" not in f]
    files.sort(key=lambda f: -os.path.getsize(f))
    return files


def run_file(tree, f, out):
    name = os.path.relpath(f, tree).replace("/", "__")
    xml = os.path.join(out, name + ".xml")
    cmd = (
        f"ip link set lo up; cd {tree} && /venv/bin/python -m pytest -q -p no:cacheprovider "
        f"--timeout=900 --continue-on-collection-errors --junitxml={xml} {os.path.relpath(f, tree)}"
    )
    p = subprocess.run(["unshare", "-n", "sh", "-c", cmd], capture_output=True, text=True)
    with open(os.path.join(out, name + ".log"), "w") as fh:
        fh.write(p.stdout + p.stderr)
    return f, p.returncode, xml


def parse(xml):
    res = {}
    try:
        root = ET.parse(xml).getroot()
    except Exception:
        return res
    for tc in root.iter("testcase"):
        cls = tc.get("classname", "")
        nm = tc.get("name", "")
        # BASELINE ids: module path with dots, then ".Class::name" or "::name"
        tid = f"{cls}::{nm}"
        st = "pass"
        for ch in tc:
            if ch.tag in ("failure", "error"):
                st = "fail"
            elif ch.tag == "skipped":
                st = "skip"
        res[tid] = st
    return res


def main():
    ap = argparse.ArgumentParser()
    ap.add_argument("tree")
    ap.add_argument("--jobs", type=int, default=6)
    ap.add_argument("--out", default="/tmp/suite-out")
    ap.add_argument("--only")
    a = ap.parse_args()
    os.makedirs(a.out, exist_ok=True)
    files = shard_files(a.tree)
    if a.only:
        files = [f for f in files if a.only in f]
    results = {}
    with ThreadPoolExecutor(a.jobs) as ex:
        for f, rc, xml in ex.map(lambda f: run_file(a.tree, f, a.out), files):
            r = parse(xml)
            results.update(r)
            print(f"{os.path.relpath(f, a.tree)} rc={rc} tests={len(r)} fail={sum(v == 'fail' for v in r.values())}", flush=True)
    base = json.load(open("/root/.vp/BASELINE.json"))
    stable = set(base["stable_pass"])
    # normalise ids: junit classname "pynetdicom.tests.test_x.TestY" name "test_z" -> "pynetdicom.tests.test_x.TestY::test_z"
    got_pass = {k for k, v in results.items() if v == "pass"}
    missing = sorted(stable - got_pass)
    if a.only:
        missing = [m for m in missing if any(m in k or k in m for k in results) or m.split("::")[0].rsplit(".", 1)[0] in {k.split("::")[0].rsplit(".", 1)[0] for k in results} or m.split("::")[0] in {k.split("::")[0] for k in results}]
    print(f"total={len(results)} pass={len(got_pass)} stable={len(stable)} stable_not_passing={len(missing)}")
    for m in missing[:200]:
        print("  NOT-PASS", m, results.get(m, "absent"))
    json.dump({"results": results, "missing": missing}, open(os.path.join(a.out, "summary.json"), "w"), indent=1)
    return 1 if missing else 0


if __name__ == "__main__":
    sys.exit(main())
