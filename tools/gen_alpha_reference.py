#!/venv/bin/python
"""Regenerate spec/alpha_reference.json from a tree (default /repo): per function the hash of its
alpha-normal form and its local names in first-occurrence order.  Run after a rule is adapted to a
changed function; the file is only ever used to undo renames of locals (sa/alpha.py)."""
import ast, json, os, sys
HERE = os.path.dirname(os.path.dirname(os.path.abspath(__file__)))
sys.path.insert(0, HERE)
from pathlib import Path
from sa.alpha import alpha, functions_of
root = Path(sys.argv[1] if len(sys.argv) > 1 else "/repo")
out = {}
for p in sorted((root / "pynetdicom").rglob("*.py")):
    parts = p.relative_to(root).with_suffix("").parts
    if "tests" in parts or "benchmarks" in parts:
        continue
    name = ".".join(parts)
    if name.endswith(".__init__"):
        name = name[: -len(".__init__")]
    import hashlib
    src = p.read_text(encoding="utf-8")
    tree = ast.parse(src)
    from sa.canon import canonicalise
    canonicalise(tree)
    rec = {"__sha__": hashlib.sha256(src.encode()).hexdigest()}
    for q, fn in functions_of(tree):
        key, order = alpha(fn)
        if order:
            rec[q] = {"key": key, "names": order}
    if len(rec) > 1:
        out[name] = rec
json.dump(out, open(os.path.join(HERE, "spec", "alpha_reference.json"), "w"), indent=0, sort_keys=True)
print(sum(len(v) - 1 for v in out.values()), "functions with locals in", len(out), "modules")
