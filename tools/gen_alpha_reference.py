#!/venv/bin/python
"""Regenerate spec/alpha_reference.json from a tree (default /repo): per function the hash of its
alpha-normal form and its local names in first-occurrence order.  Run after a rule is adapted to a
changed function; the file is only ever used to undo renames of locals (sa/alpha.py)."""
import ast, json, os, sys
HERE = os.path.dirname(os.path.dirname(os.path.abspath(__file__)))
sys.path.insert(0, HERE)
from pathlib import Path
from sa.alpha import alpha, functions_of, inlined_key, local_features, local_uses
root = Path(sys.argv[1] if len(sys.argv) > 1 else "/repo")
out = {}
sources = {}
for p in sorted((root / "pynetdicom").rglob("*.py")):
    parts = p.relative_to(root).with_suffix("").parts
    if "tests" in parts or "benchmarks" in parts:
        continue
    name = ".".join(parts)
    if name.endswith(".__init__"):
        name = name[: -len(".__init__")]
    import hashlib
    src = p.read_text(encoding="utf-8")
    tree = ast.parse(src)
    from sa.canon import canonicalise
    canonicalise(tree)
    rec = {"__sha__": hashlib.sha256(src.encode()).hexdigest()}
    srcs = {}
    for q, fn in functions_of(tree):
        key, order = alpha(fn)
        body = fn.body[1:] if fn.body and isinstance(fn.body[0], ast.Expr) and isinstance(fn.body[0].value, ast.Constant) and isinstance(fn.body[0].value.value, str) else fn.body
        if not body:
            continue
        rec[q] = {"key": key, "names": order, "ikey": inlined_key(fn), "feat": [f for _, f in local_features(fn)], "uses": local_uses(fn)}
        saved = fn.body
        fn.body = body
        srcs[q] = ast.unparse(fn)
        fn.body = saved
    if len(rec) > 1:
        out[name] = rec
        sources[name] = srcs
out["__python__"] = {"version": "%d.%d" % sys.version_info[:2]}
json.dump(out, open(os.path.join(HERE, "spec", "alpha_reference.json"), "w"), indent=0, sort_keys=True)
import gzip
open(os.path.join(HERE, "spec", "func_reference.json.gz"), "wb").write(gzip.compress(json.dumps(sources, sort_keys=True).encode(), mtime=0))
print(sum(len(v) - 1 for k, v in out.items() if k != '__python__'), "functions with locals in", len(out), "modules")
