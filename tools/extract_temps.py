#!/venv/bin/python
"""Robustness experiment: behaviour-preserving 'introduce a local' rewrites over a scratch tree.
 (1) `return f(..)`            -> `_rv = f(..); return _rv`        (not for bare names / constants)
 (2) `g(f(..), ..)` statement  -> `_t = f(..); g(_t, ..)`          (first positional argument that is a call,
                                                                    when every earlier argument is a name/constant)
 (3) `x += e` on a local name  -> `x = x + e`                      (names that are plain locals: never declared
                                                                    global/nonlocal; not inside class bodies)
usage: extract_temps.py <tree> [1][2][3]   (default: all)"""
import ast, pathlib, sys

which = set(sys.argv[2]) if len(sys.argv) > 2 else {"1", "2"}


class T(ast.NodeTransformer):
    def __init__(self):
        self.k = 0

    def fresh(self, p):
        self.k += 1
        return f"_{p}{self.k}"

    def _block(self, stmts, in_func):
        out = []
        for s in stmts:
            s = self.visit(s)
            if in_func and "1" in which and isinstance(s, ast.Return) and isinstance(s.value, (ast.Call, ast.BoolOp, ast.Compare, ast.BinOp)):
                n = self.fresh("rv")
                out.append(ast.Assign(targets=[ast.Name(id=n, ctx=ast.Store())], value=s.value))
                out.append(ast.Return(value=ast.Name(id=n, ctx=ast.Load())))
                continue
            if in_func and "2" in which and isinstance(s, (ast.Expr, ast.Assign)) and isinstance(s.value, ast.Call):
                c = s.value
                for i, a in enumerate(c.args):
                    if isinstance(a, ast.Call) and all(isinstance(b, (ast.Name, ast.Constant)) for b in c.args[:i]) and not any(isinstance(x, (ast.Yield, ast.YieldFrom, ast.Await, ast.NamedExpr)) for x in ast.walk(a)):
                        n = self.fresh("t")
                        out.append(ast.Assign(targets=[ast.Name(id=n, ctx=ast.Store())], value=a))
                        c.args[i] = ast.Name(id=n, ctx=ast.Load())
                        break
                    if not isinstance(a, (ast.Name, ast.Constant)):
                        break
                out.append(s)
                continue
            if in_func and "3" in which and isinstance(s, ast.AugAssign) and isinstance(s.target, ast.Name) and isinstance(s.op, ast.Add) and s.target.id not in self.nonlocal_names:
                out.append(ast.Assign(targets=[ast.Name(id=s.target.id, ctx=ast.Store())], value=ast.BinOp(left=ast.Name(id=s.target.id, ctx=ast.Load()), op=ast.Add(), right=s.value)))
                continue
            out.append(s)
        return out

    nonlocal_names: set = set()
    depth = 0

    def visit_FunctionDef(self, fn):
        saved = self.nonlocal_names
        self.nonlocal_names = saved | {n for s in ast.walk(fn) if isinstance(s, (ast.Global, ast.Nonlocal)) for n in s.names}
        self.depth += 1
        fn.body = self._block(fn.body, True)
        self.depth -= 1
        self.nonlocal_names = saved
        return fn

    visit_AsyncFunctionDef = visit_FunctionDef

    def generic_visit(self, node):
        for field in ("body", "orelse", "finalbody"):
            v = getattr(node, field, None)
            if isinstance(v, list) and v and isinstance(v[0], ast.stmt) and not isinstance(node, (ast.FunctionDef, ast.AsyncFunctionDef)):
                setattr(node, field, self._block(v, self.depth > 0 and not isinstance(node, ast.ClassDef)))
        if isinstance(node, ast.Try):
            for h in node.handlers:
                h.body = self._block(h.body, self.depth > 0)
        if isinstance(node, ast.Match):
            for c in node.cases:
                c.body = self._block(c.body, self.depth > 0)
        return node

    def visit_ClassDef(self, node):
        d, self.depth = self.depth, 0
        node.body = [self.visit(s) for s in node.body]
        self.depth = d
        return node


k = 0
for p in pathlib.Path(sys.argv[1], "pynetdicom").rglob("*.py"):
    if "/tests/" in str(p):
        continue
    t = ast.parse(p.read_text())
    tr = T()
    t = tr.visit(t)
    ast.fix_missing_locations(t)
    src = ast.unparse(t) + "\n"
    compile(src, str(p), "exec")
    p.write_text(src)
    k += 1
print(k, "files rewritten")
