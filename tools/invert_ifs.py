#!/venv/bin/python
"""Robustness experiment: rewrite a scratch tree with every `if C: A else: B` (plain else) turned into
`if not C: B else: A` and everything re-printed by ast.unparse. usage: invert_ifs.py <tree>"""
import ast, pathlib, sys


class T(ast.NodeTransformer):
    def visit_If(self, n):
        self.generic_visit(n)
        if n.orelse and not (len(n.orelse) == 1 and isinstance(n.orelse[0], ast.If)):
            t = n.test
            nt = t.operand if isinstance(t, ast.UnaryOp) and isinstance(t.op, ast.Not) else ast.UnaryOp(op=ast.Not(), operand=t)
            n.test, n.body, n.orelse = nt, n.orelse, n.body
        return n


k = 0
for p in pathlib.Path(sys.argv[1], "pynetdicom").rglob("*.py"):
    t = ast.parse(p.read_text())
    T().visit(t)
    ast.fix_missing_locations(t)
    src = ast.unparse(t) + "\n"
    compile(src, str(p), "exec")
    p.write_text(src)
    k += 1
print(k, "files rewritten")
