#!/venv/bin/python
"""Regenerate /verif/MANIFEST.json from sa/registry.py."""
import json, os, sys
HERE = os.path.dirname(os.path.dirname(os.path.abspath(__file__)))
sys.path.insert(0, HERE)
from sa.registry import CLAIMED, NOT_APPLICABLE, PENDING

props = [json.loads(l)["id"] for l in open(os.path.join(HERE, "properties.jsonl"))]
checks = []
for pid in props:
    c = CLAIMED.get(pid)
    if not c:
        continue
    if "text" not in c:
        import importlib
        c["text"] = importlib.import_module(f"sa.rules.{pid.lower()}").EXPLANATION
    checks.append({
        "property_id": pid,
        "quick_cmd": f"./check {pid} --tier quick",
        "thorough_cmd": f"./check {pid} --tier thorough",
        "evidence_file": f"/verif/evidence/{pid}.json",
        "replay_cmd_template": f"./check {pid} --replay {{path}}",
        "engine": "sa",
        "level_claimed": {"category": c["level"], "text": c["text"], "design_ref": "DESIGN.md section " + c["ref"]},
        "level_note": c["note"],
        "technique": c["technique"],
    })
na = []
for pid in props:
    if pid in CLAIMED:
        continue
    na.append({"property_id": pid, "reason": NOT_APPLICABLE.get(pid, PENDING)})
man = {
    "version": 1,
    "setup_cmd": "/venv/bin/python -c \"import ast, sys; sys.exit(0 if sys.version_info >= (3, 10) else 1)\"",
    "hooks": {
        "guard": "PYNETDICOM_VERIF",
        "enable": "none needed: every check reads /repo's source with ast and never imports or runs it; no hook commits exist",
        "baseline_off_cmd": "cd /repo && /venv/bin/python -m pytest -ra -q -p no:cacheprovider --timeout=900 --continue-on-collection-errors",
        "source_commits": [],
        "add_only": True,
    },
    "engines": [{
        "name": "sa",
        "path": "/verif/sa",
        "serves_properties": [c["property_id"] for c in checks],
        "kind_free_text": "repository-specific static analysis: ast loader, static literal evaluator, hand-built CFG with exception edges, dominance/must-pass queries, powerset typestate engine, per-property rule modules compared against hand transcriptions of PS3.7/PS3.8 under spec/",
    }],
    "checks": checks,
    "notes": "All checks are static (technique family: static analysis). exit 2 + ANALYSIS-ERROR means an anchor vanished or a shape was not recognised - never a verdict. Known genuine defects are listed in known_findings.json and printed as KNOWN-FINDING lines. thorough = quick rules + that property's self-test variants (mutants must fire, refactors must stay silent) on scratch copies.",
    "not_applicable": na,
}
json.dump(man, open(os.path.join(HERE, "MANIFEST.json"), "w"), indent=1)
print(f"claimed {len(checks)}, not claimed {len(na)}")
