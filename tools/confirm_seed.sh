#!/bin/bash
# tools/confirm_seed.sh <seed dir with patch.diff + demo_test.py> [related test paths...]
# Confirms in the scratch worktree /tmp/wt/confirm: demo passes without the change, fails with it,
# related existing tests pass with it. Leaves the worktree pristine.
d=$1; shift
wt=${WT:-/tmp/wt/confirm}
git -C $wt checkout -q -- . && git -C $wt clean -fdq
cp $d/demo_test.py $wt/_demo_test.py
run() { unshare -n -- bash -c "ip link set lo up; cd $wt && timeout 900 /venv/bin/python -m pytest -q -p no:cacheprovider --timeout=600 $* 2>&1 | tail -2"; }
echo "--- demo on pristine:"; run _demo_test.py
git -C $wt apply $d/patch.diff || { echo "PATCH DOES NOT APPLY"; exit 1; }
echo "--- demo with change:"; run _demo_test.py
if [ $# -gt 0 ]; then echo "--- related tests with change:"; run "$@"; fi
rm -f $wt/_demo_test.py
git -C $wt checkout -q -- . && git -C $wt clean -fdq
