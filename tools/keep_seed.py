#!/venv/bin/python
"""tools/keep_seed.py <seed id> <source dir> <property> <needs> <ran> <caught_by>"""
import json, os, shutil, sys
HERE = os.path.dirname(os.path.dirname(os.path.abspath(__file__)))
sid, src, prop, needs, ran, caught = sys.argv[1:7]
dst = os.path.join(HERE, "seeded", sid)
os.makedirs(dst, exist_ok=True)
shutil.copy(os.path.join(src, "patch.diff"), os.path.join(dst, "patch.diff"))
shutil.copy(os.path.join(src, "demo_test.py"), os.path.join(dst, "demo_test.py"))
if os.path.exists(os.path.join(src, "notes.md")):
    shutil.copy(os.path.join(src, "notes.md"), os.path.join(dst, "notes.md"))
json.dump({"id": sid, "property": prop, "breaks": prop, "needs_to_manifest": needs, "confirmed_by_running": ran, "caught_by": caught,
           "origin": "written by an independent sub-agent that saw only the property text and a scratch worktree"},
          open(os.path.join(dst, "meta.json"), "w"), indent=1)
print("kept", dst)
