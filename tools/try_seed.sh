#!/bin/bash
# tools/try_seed.sh <patch.diff> <property ids...>  - run checks against a scratch copy of /repo with the patch applied
set -e
patch=$1; shift
tmp=$(mktemp -d /var/tmp/seedtry-XXXX)
base=${SEED_BASE:-/repo}
mkdir -p $tmp/pynetdicom
(cd $base && tar cf - --exclude=tests --exclude=__pycache__ pynetdicom docs/service_classes) | tar xf - -C $tmp
(cd $tmp && patch -p1 -s --no-backup-if-mismatch < $patch) || echo "PATCH FAILED"
for p in "$@"; do
  VERIF_REPO=$tmp VERIF_EVIDENCE_DIR=$tmp/ev /verif/check $p | grep -v "^KNOWN-FINDING\|path:" | tail -8
done
rm -rf $tmp
