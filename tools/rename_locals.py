#!/venv/bin/python
"""Robustness experiment: rewrite a scratch tree with every local variable of every function renamed
(suffix _r) and everything re-printed by ast.unparse. usage: rename_locals.py <tree>"""
import ast, pathlib, sys
sys.path.insert(0, str(pathlib.Path(__file__).resolve().parent.parent))
from sa.alpha import local_names, functions_of
n = 0
for p in pathlib.Path(sys.argv[1], "pynetdicom").rglob("*.py"):
    t = ast.parse(p.read_text())
    for q, fn in functions_of(t):
        ren = local_names(fn)
        for x in ast.walk(fn):
            if isinstance(x, ast.Name) and x.id in ren:
                x.id += "_r"
            elif isinstance(x, ast.ExceptHandler) and x.name in ren:
                x.name += "_r"
    src = ast.unparse(t) + "\n"
    compile(src, str(p), "exec")
    p.write_text(src)
    n += 1
print(n, "files rewritten")
